// C01: composed resources are never leaked or duplicated, whatever fails
// mid-reconcile. Fault enumeration over the real composite.Reconciler (both
// composers) against simkube: every API call of the first W reconciles is a
// fault point with every outcome; histories with at most F deviations are
// enumerated, each followed by fault-free reconciles to quiescence.
package c01

import (
	"encoding/json"
	"context"
	"fmt"
	"sort"
	"strings"
	"testing"

	"google.golang.org/protobuf/types/known/structpb"
	metav1 "k8s.io/apimachinery/pkg/apis/meta/v1"
	"k8s.io/apimachinery/pkg/apis/meta/v1/unstructured"
	"k8s.io/apimachinery/pkg/runtime/schema"
	"k8s.io/apimachinery/pkg/types"
	"sigs.k8s.io/controller-runtime/pkg/reconcile"

	xpv1 "github.com/crossplane/crossplane-runtime/apis/common/v1"

	fnv1 "github.com/crossplane/crossplane/apis/apiextensions/fn/proto/v1"
	v1 "github.com/crossplane/crossplane/apis/apiextensions/v1"
	"github.com/crossplane/crossplane/verif/explore"
	"github.com/crossplane/crossplane/verif/report"
	"github.com/crossplane/crossplane/verif/simkube"
	"github.com/crossplane/crossplane/verif/xrh"
)

var composedKinds = []schema.GroupVersionKind{xrh.ResA, xrh.ResB}

func desiredResource(gvk schema.GroupVersionKind, param string) *fnv1.Resource {
	s, err := structpb.NewStruct(map[string]any{
		"apiVersion": gvk.GroupVersion().String(),
		"kind":       gvk.Kind,
		"spec":       map[string]any{"param": param},
	})
	if err != nil {
		panic(err)
	}
	return &fnv1.Resource{Resource: s, Ready: fnv1.Ready_READY_TRUE}
}

// wantB says whether the scripted function still desires resource b.
var wantB = true

// nameA makes the scripted function set metadata.name of resource a itself,
// derived from the XR's spec.param (so it changes when that field is edited).
var nameA = false

// annotateA makes the rendered resource a arrive with a
// crossplane.io/composition-resource-name annotation naming something else
// (a manifest copied from another composition, a nested XR whose parent
// annotated it): the composer must still associate it with "a".
var annotateA = false

const foreignResourceName = "legacy-a"

// fn is the scripted composition function: desired = {a: ResA, b: ResB}
// (b only while wantB).
func fn(_ context.Context, _ string, req *fnv1.RunFunctionRequest) (*fnv1.RunFunctionResponse, error) {
	param := ""
	if f := req.GetObserved().GetComposite().GetResource().GetFields()["spec"]; f != nil {
		if p := f.GetStructValue().GetFields()["param"]; p != nil {
			param = p.GetStringValue()
		}
	}
	xr, _ := structpb.NewStruct(map[string]any{"status": map[string]any{"out": "from-fn"}})
	return &fnv1.RunFunctionResponse{
		Desired: &fnv1.State{
			Composite: &fnv1.Resource{Resource: xr},
			Resources: func() map[string]*fnv1.Resource {
				m := map[string]*fnv1.Resource{"a": desiredResource(xrh.ResA, param)}
				if nameA {
					m["a"].Resource.Fields["metadata"] = structpb.NewStructValue(&structpb.Struct{Fields: map[string]*structpb.Value{"name": structpb.NewStringValue("explicit-" + param)}})
				}
				if annotateA {
					md := m["a"].Resource.Fields["metadata"].GetStructValue()
					if md == nil {
						md = &structpb.Struct{Fields: map[string]*structpb.Value{}}
						m["a"].Resource.Fields["metadata"] = structpb.NewStructValue(md)
					}
					md.Fields["annotations"] = structpb.NewStructValue(&structpb.Struct{Fields: map[string]*structpb.Value{"crossplane.io/composition-resource-name": structpb.NewStringValue(foreignResourceName)}})
				}
				if wantB {
					m["b"] = desiredResource(xrh.ResB, param)
				}
				return m
			}(),
		},
		Context: req.GetContext(),
	}, nil
}

type scenario struct {
	composer string // pipeline | pipeline-named (the function names resource a itself, after an XR field) | pt
	// cache "miss": during the faulty window every Get of a composed kind
	// misses the controller's cache (the informer has not caught up) and is
	// answered by the API server only through the uncached fallback.
	cache string
	initial  string // fresh | steady | b-deleted | param-changed | a-ctrl-stripped
	order    int
	window   int
	bound    int
	reads    bool
}

func (sc scenario) name() string {
	n := fmt.Sprintf("%s/%s/order%d/w%d/f%d/reads=%v", sc.composer, sc.initial, sc.order, sc.window, sc.bound, sc.reads)
	if sc.cache != "" {
		n += "/cache=" + sc.cache
	}
	return n
}

func (sc scenario) pipeline() bool { return strings.HasPrefix(sc.composer, "pipeline") }

type world struct {
	s     *simkube.Store
	xrd   *v1.CompositeResourceDefinition
	inj   *xrh.FaultInjector
	names map[string]string // composition resource name -> first metadata.name seen
	r     *explore.Run
}

func ptTemplates() []xrh.Template {
	from := "spec.param"
	req := v1.FromFieldPathPolicyRequired
	pol := &v1.PatchPolicy{FromFieldPath: &req}
	var extraA func(ct *v1.ComposedTemplate)
	if annotateA {
		extraA = func(ct *v1.ComposedTemplate) {
			base := map[string]any{}
			if err := json.Unmarshal(ct.Base.Raw, &base); err != nil {
				panic(err)
			}
			md, _ := base["metadata"].(map[string]any)
			if md == nil {
				md = map[string]any{}
			}
			md["annotations"] = map[string]any{"crossplane.io/composition-resource-name": foreignResourceName}
			base["metadata"] = md
			ct.Base.Raw, _ = json.Marshal(base)
		}
	}
	return []xrh.Template{
		{Name: "a", GVK: xrh.ResA, Extra: extraA, Patches: []v1.Patch{{Type: v1.PatchTypeFromCompositeFieldPath, FromFieldPath: &from, ToFieldPath: &from, Policy: pol}}},
		{Name: "b", GVK: xrh.ResB, Patches: []v1.Patch{{Type: v1.PatchTypeFromCompositeFieldPath, FromFieldPath: &from, ToFieldPath: &from, Policy: pol}}},
	}
}

func setup(r *explore.Run, sc scenario) *world {
	annotateA = strings.HasSuffix(sc.composer, "-annotated")
	xrh.BeginExecution(7)
	xrh.MapOrder(sc.order)
	s := xrh.NewStore()
	w := &world{s: s, xrd: xrh.XRD(), names: map[string]string{}, r: r}
	s.Seed(w.xrd)
	var comp *v1.Composition
	if sc.pipeline() {
		comp = xrh.PipelineComposition("comp", "step1")
	} else {
		comp = xrh.ResourcesComposition("comp", ptTemplates()...)
	}
	xrh.SeedComposition(s, comp)
	xr := xrh.XR("xr1", "comp")
	xr.SetWriteConnectionSecretToReference(&xpv1.SecretReference{Namespace: "ns", Name: "xr1-conn"})
	s.Seed(xr)
	w.inj = (&xrh.FaultInjector{Run: r, Reads: sc.reads, NotFoundReads: true}).WithErrClasses(s)
	s.Inj = w.inj
	return w
}

func TestCheck(t *testing.T) {
	rep := report.New("C01", "fault_enumeration")
	rep.Meta(
		"Executions are histories of real XR reconciles over simkube: every API call (writes, and reads where noted) issued in the first W reconciles is a fault point with outcomes {ok, error-before, conflict, error-after, crash-before, crash-after}; all histories with <= F deviations are enumerated by DFS, each continued by fault-free reconciles to quiescence. A case is non-trivial when at least one fault was injected and it changed the sequence of effective writes (distinct = distinct write-sequence hash).",
		[]string{"simkube models the API server (conformance tests in h/simkube)", "reconciles are triggered one at a time (no two reconciles of the same XR run concurrently, as controller-runtime guarantees)", "composition fixed: function returns desired {a,b} (variant pipeline-named: it also sets metadata.name of a from an XR field); P&T templates named {a,b}", "cache=miss scenarios: every Get of a composed kind misses the controller cache during the faulty window (served only by the uncached fallback), then the cache catches up"},
		[]string{"simkube", "structured-merge-diff (real)", "evanphx/json-patch (real)"},
	)
	var scs []scenario
	composers := []string{"pipeline", "pt"}
	initials := []string{"fresh", "steady", "b-deleted", "param-changed", "param-removed", "b-undesired"}
	if report.Thorough() {
		for _, c := range composers {
			for _, in := range append(initials, "a-ctrl-stripped") {
				for _, o := range []int{0, 1} {
					scs = append(scs, scenario{composer: c, initial: in, order: o, window: 3, bound: 2, reads: false})
				}
				scs = append(scs, scenario{composer: c, initial: in, order: 0, window: 2, bound: 1, reads: true})
				scs = append(scs, scenario{composer: c, initial: in, order: 0, window: 4, bound: 3, reads: false})
			}
		}
		rep.Bound("faulty_reconcile_window", 3)
		rep.Bound("max_deviations", "2 (3 in the w4/f3 scenarios)")
	} else {
		for _, c := range composers {
			for _, in := range initials {
				scs = append(scs, scenario{composer: c, initial: in, order: 0, window: 2, bound: 1, reads: true})
				scs = append(scs, scenario{composer: c, initial: in, order: 1, window: 2, bound: 2, reads: false})
			}
		}
		rep.Bound("faulty_reconcile_window", 2)
		rep.Bound("max_deviations", 2)
	}
	// The function names a resource itself; composed kinds missing from the
	// controller's cache during the faulty window.
	for _, in := range []string{"fresh", "steady", "param-changed"} {
		scs = append(scs, scenario{composer: "pipeline-named", initial: in, order: 0, window: 2, bound: 1, reads: false})
	}
	for _, c := range composers {
		for _, in := range []string{"steady", "param-changed", "b-deleted"} {
			scs = append(scs, scenario{composer: c, initial: in, order: 0, window: 2, bound: 1, reads: false, cache: "miss"})
		}
	}
	// The rendered resource arrives annotated with another resource name.
	for _, c := range []string{"pipeline-annotated", "pt-annotated"} {
		for _, in := range []string{"fresh", "steady"} {
			scs = append(scs, scenario{composer: c, initial: in, order: 0, window: 2, bound: 1, reads: false})
		}
	}
	// P&T: a template disappears from the Composition.
	scs = append(scs,
		scenario{composer: "pt", initial: "b-template-removed", order: 0, window: 2, bound: 2, reads: false},
		scenario{composer: "pt", initial: "b-template-removed", order: 1, window: 3, bound: 1, reads: true},
	)
	rep.Bound("quiescence_horizon", horizon)
	var list []report.Scenario
	for _, sc := range scs {
		sc := sc
		list = append(list, report.Scenario{
			Name: sc.name(), Bound: sc.bound, Prune: true, Wrap: report.Bubble(t),
			Body: func(r *explore.Run) { body(r, sc, rep) },
		})
	}
	rep.SelfCheck(t, list[0], func() { memos = map[string]*memo{} })
	rep.RunScenarios(t, list)
	rep.Write(t)
}

const horizon = 10

type memo struct {
	prepared *simkube.Store
	names    map[string]string
	passed   map[string]bool
}

var memos = map[string]*memo{}

func body(r *explore.Run, sc scenario, rep *report.R) {
	m := memos[sc.name()]
	if m == nil {
		m = &memo{passed: map[string]bool{}}
		memos[sc.name()] = m
	}
	wantB = true
	nameA = sc.composer == "pipeline-named"
	w := setup(r, sc)
	if m.prepared != nil {
		w.s = m.prepared.Clone()
		w.s.Inj = w.inj
		for k, v := range m.names {
			w.names[k] = v
		}
	}
	s := w.s
	xrc := s.Client("xr")
	lagging := &xrh.MissingCache{Client: xrc, Kinds: map[string]bool{}}
	mk := func() *xrReconciler {
		return &xrReconciler{rec: xrh.NewXRReconciler(w.xrd, xrh.XROptions{Cached: lagging, Uncached: xrc, Runner: xrh.FunctionRunner(fn)})}
	}
	rec := mk()
	nn := types.NamespacedName{Name: "xr1"}

	// --- preparation (fault free, not explored) ---
	if sc.initial != "fresh" && m.prepared == nil {
		if !toQuiescence(w, rec, nn, nil) {
			// Fault-free reconciles from a fresh XR that never stop writing:
			// "reconciling again changes nothing" does not hold.
			r.Failf("I3/no-quiescence/"+sc.composer+"/fault-free", "a fresh XR did not reach a state in which reconciling changes nothing within %d fault-free reconciles; last writes: %s", horizon, xrh.DescribeWrites(s, len(s.Log)-6))
		}
		w.observeNames()
		switch sc.initial {
		case "b-deleted":
			// An external actor deletes b. Its replacement is a new object;
			// name stability is not demanded across an external deletion.
			for _, o := range s.All(xrh.ResB.GroupKind()) {
				s.Remove(simkube.KeyOf(o))
			}
			delete(w.names, "b")
		case "param-changed":
			s.Mutate(xrh.XRKey("xr1"), func(u *unstructured.Unstructured) {
				_ = unstructured.SetNestedField(u.Object, "p2", "spec", "param")
			})
		case "param-removed":
			// A required patch source disappears: rendering fails for a
			// while (the field is restored after the faulty window).
			s.Mutate(xrh.XRKey("xr1"), func(u *unstructured.Unstructured) {
				unstructured.RemoveNestedField(u.Object, "spec", "param")
			})
		case "b-template-removed":
			// P&T: the Composition loses template b (new revision): its
			// composed resource is garbage collected by the next reconciles.
			comp2 := xrh.ResourcesComposition("comp", ptTemplates()[:1]...)
			s.Remove(simkube.ObjKey{Group: "apiextensions.crossplane.io", Kind: "Composition", Name: "comp"})
			s.Seed(comp2)
			s.Seed(xrh.Revision(comp2, 2))
			s.Mutate(xrh.XRKey("xr1"), func(u *unstructured.Unstructured) {
				unstructured.RemoveNestedField(u.Object, "spec", "compositionRevisionRef")
			})
		case "a-ctrl-stripped":
			for _, o := range s.All(xrh.ResA.GroupKind()) {
				s.Mutate(simkube.KeyOf(o), func(u *unstructured.Unstructured) { u.SetOwnerReferences(nil) })
			}
		}
	}

	if sc.initial != "fresh" && m.prepared == nil {
		m.prepared = s.Clone()
		m.names = map[string]string{}
		for k, v := range w.names {
			m.names[k] = v
		}
	}
	xrh.BeginExecution(7)
	xrh.MapOrder(sc.order)
	// From here on the function may stop desiring b (its output changes
	// between reconciles; resource names keep their kind).
	wantB = sc.initial != "b-undesired"

	// --- invariants after every effective write ---
	s.OnWrite = append(s.OnWrite, func(rec *simkube.WriteRecord) { w.invariants(rec.Call.String()) })
	logStart := len(s.Log)

	// --- faulty window ---
	if sc.cache == "miss" {
		lagging.Kinds = map[string]bool{xrh.ResA.Kind: true, xrh.ResB.Kind: true}
	}
	for i := 0; i < sc.window; i++ {
		r.Seen(report.Hash("w", i, s.Canonical(), w.namesKey()))
		w.inj.Armed = true
		out := xrh.Reconcile(rec.rec, nn)
		w.inj.Armed = false
		if out.Crashed != nil {
			r.Logf("reconcile %d: CRASH at %s", i, out.Crashed.Call)
			rec = mk() // process restart
		} else {
			r.Logf("reconcile %d: err=%v", i, out.Err)
		}
		w.invariants(fmt.Sprintf("after reconcile %d", i))
	}

	if sc.initial == "param-removed" {
		s.Mutate(xrh.XRKey("xr1"), func(u *unstructured.Unstructured) {
			_ = unstructured.SetNestedField(u.Object, "p1", "spec", "param")
		})
	}
	lagging.Kinds = map[string]bool{} // the cache has caught up
	// --- fault-free continuation to quiescence (memoised per state: the
	// continuation is a deterministic function of the store) ---
	contKey := report.Hash(s.Canonical(), w.namesKey())
	if m.passed[contKey] {
		account(r, sc, rep, w, logStart, "memo:"+contKey)
		return
	}
	if !toQuiescence(w, rec, nn, func(i int, err error) { r.Logf("quiesce reconcile %d: err=%v", i, err) }) {
		r.Failf("I3/no-quiescence/"+sc.composer, "XR did not reach a state in which reconciling changes nothing within %d fault-free reconciles; last writes: %s", horizon, xrh.DescribeWrites(s, len(s.Log)-6))
	}
	w.invariants("at quiescence")

	// --- final state: a and b exist, are referenced, names stable ---
	xr := s.Peek(xrh.XRKey("xr1"))
	refs := xrh.Refs(xr)
	got := map[string]string{}
	for _, o := range xrh.ComposedOf(s, xr.GetUID(), composedKinds...) {
		got[o.GetAnnotations()["crossplane.io/composition-resource-name"]] = o.GetKind() + "/" + o.GetName()
	}
	want := []string{"a", "b"}
	if (!wantB && sc.pipeline()) || sc.initial == "b-template-removed" {
		want = []string{"a"}
	}
	for _, n := range want {
		if got[n] == "" {
			r.Failf("final/missing/"+sc.composer, "at quiescence desired resource %q does not exist (refs %v, composed %v)", n, refs, got)
		}
		found := false
		for _, ref := range refs {
			if ref == got[n] {
				found = true
			}
		}
		if !found {
			r.Failf("I1/unreferenced-at-quiescence/"+sc.composer, "composed %s not in refs %v", got[n], refs)
		}
	}
	if len(refs) != len(want) {
		r.Failf("final/refs/"+sc.composer, "at quiescence spec.resourceRefs = %v, want exactly the desired resources %v", refs, want)
	}
	if len(got) != len(want) {
		r.Failf("I1/leak-at-quiescence/"+sc.composer, "at quiescence the XR controls %v but desires only %v", got, want)
	}

	m.passed[contKey] = true
	account(r, sc, rep, w, logStart, s.Canonical())
}

func account(r *explore.Run, sc scenario, rep *report.R, w *world, logStart int, final string) {
	s := w.s
	var seq []string
	for _, wr := range s.Log[logStart:] {
		if wr.Effective {
			seq = append(seq, wr.Call.Verb+wr.Call.Sub+" "+wr.Call.Key.Kind)
		}
	}
	outcome := report.Hash(sc.composer, strings.Join(seq, ";"), final)
	nt := ""
	if len(w.inj.Taken) > 0 {
		nt = report.Hash(sc.composer, sc.initial, strings.Join(w.inj.Taken, ";"), strings.Join(seq, ";"))
	}
	rep.Eval(sc.name(), outcome, nt)
	if len(w.inj.Taken) > 0 && rep.WantSample() {
		rep.Sample(map[string]any{"scenario": sc.name(), "faults": w.inj.Taken, "effective_writes": seq, "choices": append([]int{}, r.Choices...)})
	}
}

type xrReconciler struct {
	rec reconcile.Reconciler
}

func toQuiescence(w *world, rec *xrReconciler, nn types.NamespacedName, log func(i int, err error)) bool {
	quiet := 0
	for i := 0; i < horizon; i++ {
		before := w.s.Versions()
		out := xrh.Reconcile(rec.rec, nn)
		if out.Crashed != nil {
			panic(explore.HarnessError{Msg: "crash in fault-free reconcile"})
		}
		if log != nil {
			log(i, out.Err)
		}
		after := w.s.Versions()
		if sameVersions(before, after) {
			// The reconciler is stateless: a reconcile that wrote nothing
			// would write nothing again from the same store.
			return true
		}
		_ = quiet
	}
	return false
}

func sameVersions(a, b map[simkube.ObjKey]string) bool {
	if len(a) != len(b) {
		return false
	}
	for k, v := range a {
		if b[k] != v {
			return false
		}
	}
	return true
}

func (w *world) namesKey() string {
	var ks []string
	for k, v := range w.names {
		ks = append(ks, k+"="+v)
	}
	sort.Strings(ks)
	return strings.Join(ks, ",")
}

func (w *world) observeNames() {
	xr := w.s.Peek(xrh.XRKey("xr1"))
	if xr == nil {
		return
	}
	for _, o := range xrh.ComposedOf(w.s, xr.GetUID(), composedKinds...) {
		n := o.GetAnnotations()["crossplane.io/composition-resource-name"]
		if _, ok := w.names[n]; !ok {
			w.names[n] = o.GetName()
		}
	}
}

// invariants I1 and I2, evaluated on the stored state.
func (w *world) invariants(at string) {
	s := w.s
	xr := s.Peek(xrh.XRKey("xr1"))
	if xr == nil {
		return
	}
	refs := map[string]bool{}
	for _, r := range xrh.Refs(xr) {
		refs[r] = true
	}
	perName := map[string][]string{}
	for _, o := range xrh.ComposedOf(s, xr.GetUID(), composedKinds...) {
		if o.GetDeletionTimestamp() != nil {
			continue
		}
		id := o.GetKind() + "/" + o.GetName()
		if !refs[id] {
			w.r.Failf("I1/leak/"+o.GetKind(), "%s: live composed resource %s is controlled by the XR but not listed in the stored spec.resourceRefs %v", at, id, xrh.Refs(xr))
		}
		n := o.GetAnnotations()["crossplane.io/composition-resource-name"]
		perName[n] = append(perName[n], id)
		if first, ok := w.names[n]; ok && first != o.GetName() {
			w.r.Failf("I2/renamed/"+n, "%s: desired resource %q was first composed as %q and now exists as %q", at, n, first, o.GetName())
		} else if !ok {
			w.names[n] = o.GetName()
		}
	}
	for n, ids := range perName {
		if len(ids) > 1 {
			w.r.Failf("I2/duplicate/"+n, "%s: %d composed resources exist for desired resource %q: %v", at, len(ids), n, ids)
		}
	}
}

var _ = metav1.Now
