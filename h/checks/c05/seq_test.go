package c05

import (
	"context"

	corev1 "k8s.io/api/core/v1"
	metav1 "k8s.io/apimachinery/pkg/apis/meta/v1"
	"k8s.io/apimachinery/pkg/types"

	xpv1 "github.com/crossplane/crossplane-runtime/apis/common/v1"

	fnv1 "github.com/crossplane/crossplane/apis/apiextensions/fn/proto/v1"
	"github.com/crossplane/crossplane/verif/explore"
	"github.com/crossplane/crossplane/verif/report"
	"github.com/crossplane/crossplane/verif/xrh"
)

// ---- scenario: one reconciler, several reconciles and XRs ------------------------
//
// The product scenarios build a reconciler per case. A controller is one
// long-lived Reconciler serving every XR of its kind: here one instance first
// reconciles an XR whose pipeline asserts the custom condition "Custom"
// (healthy), then - in every order - the same XR and a second XR of the kind
// (which carries Custom=True from earlier) with a pipeline that ends in a
// fatal result without re-asserting it. After a fatal reconcile the custom
// condition is Unknown on that XR, whatever the instance saw before.

func seqFn(mode map[string]string) xrh.FunctionRunner {
	return func(_ context.Context, _ string, req *fnv1.RunFunctionRequest) (*fnv1.RunFunctionResponse, error) {
		name := req.GetObserved().GetComposite().GetResource().GetFields()["metadata"].GetStructValue().GetFields()["name"].GetStringValue()
		rsp := &fnv1.RunFunctionResponse{Context: req.GetContext(), Desired: req.GetDesired()}
		switch mode[name] {
		case "healthy":
			rsp.Conditions = []*fnv1.Condition{{Type: "Custom", Status: fnv1.Status_STATUS_CONDITION_TRUE, Reason: "Fine", Target: fnv1.Target_TARGET_COMPOSITE_AND_CLAIM.Enum()}}
		case "fatal":
			rsp.Results = []*fnv1.Result{{Severity: fnv1.Severity_SEVERITY_FATAL, Message: "boom"}}
		}
		return rsp, nil
	}
}

func seqBody(r *explore.Run, rep *report.R, sc string) {
	// The order of the three steps after the first healthy reconcile.
	orders := [][]string{
		{"xr1:fatal"}, {"xr2:fatal"}, {"xr1:fatal", "xr2:fatal"}, {"xr2:fatal", "xr1:fatal"},
		{"xr1:healthy", "xr1:fatal"}, {"xr2:healthy", "xr1:fatal", "xr2:fatal"},
	}
	steps := orders[r.Free(len(orders), "sequence")]
	xrh.BeginExecution(5)
	s := xrh.NewStore()
	xrd := xrh.XRD()
	s.Seed(xrd)
	xrh.SeedComposition(s, xrh.PipelineComposition("comp", "compose"))
	s.Seed(xrh.XR("xr1", "comp"))
	x2 := xrh.XR("xr2", "comp")
	x2.SetConditions(xpv1.Condition{Type: "Custom", Status: corev1.ConditionTrue, Reason: "Earlier", LastTransitionTime: metav1.Now()})
	s.Seed(x2)
	mode := map[string]string{"xr1": "healthy", "xr2": "healthy"}
	rec := xrh.NewXRReconciler(xrd, xrh.XROptions{Cached: s.Client("xr"), Runner: seqFn(mode)})
	run := func(name string) {
		for i := 0; i < 3; i++ {
			xrh.Reconcile(rec, types.NamespacedName{Name: name})
		}
	}
	run("xr1")
	if c := conds(s.Peek(xrh.XRKey("xr1")))["Custom"]; c.Status != corev1.ConditionTrue {
		panic(explore.HarnessError{Msg: "healthy pipeline did not set Custom=True: " + string(c.Status)})
	}
	for _, st := range steps {
		name, m := st[:3], st[4:]
		mode[name] = m
		run(name)
		c := conds(s.Peek(xrh.XRKey(name)))["Custom"]
		r.Logf("%s reconciled with a %s pipeline -> Custom=%s/%s", name, m, c.Status, c.Reason)
		if m == "fatal" && c.Status != corev1.ConditionUnknown {
			r.Failf("xr/custom-not-unknown-after-fatal/long-lived-reconciler", "after %v on one reconciler instance: %s's pipeline ended in a fatal result without re-asserting Custom, which is %q, want Unknown", steps, name, c.Status)
		}
		if m == "healthy" && c.Status != corev1.ConditionTrue {
			r.Failf("xr/custom-dropped", "%s's pipeline asserted Custom=True but the XR has %q", name, c.Status)
		}
	}
	rep.Eval(sc, report.Hash(steps), report.Hash(sc, steps))
}
