// C05: Ready and Synced never overstate the truth, and functions cannot forge
// them. Exhaustive product of per-resource outcomes x XR-level ready x function
// conditions (system and custom, both targets, also forged inside the desired
// XR status) x fatal step x initial conditions, for both composers, each
// followed by a claim reconcile with both syncers; oracle = the statement
// transcribed on the stored conditions plus a differential run without the
// forged conditions.
package c05

import (
	"k8s.io/apimachinery/pkg/runtime/schema"
	"context"
	"fmt"
	"sort"
	"strings"
	"testing"

	"google.golang.org/protobuf/types/known/structpb"
	corev1 "k8s.io/api/core/v1"
	kerrors "k8s.io/apimachinery/pkg/api/errors"
	metav1 "k8s.io/apimachinery/pkg/apis/meta/v1"
	"k8s.io/apimachinery/pkg/apis/meta/v1/unstructured"
	"k8s.io/apimachinery/pkg/types"
	"k8s.io/apimachinery/pkg/util/validation/field"

	xpv1 "github.com/crossplane/crossplane-runtime/apis/common/v1"
	"github.com/crossplane/crossplane-runtime/pkg/resource/unstructured/composite"
	"github.com/crossplane/crossplane-runtime/pkg/resource/unstructured/reference"

	fnv1 "github.com/crossplane/crossplane/apis/apiextensions/fn/proto/v1"
	v1 "github.com/crossplane/crossplane/apis/apiextensions/v1"
	"github.com/crossplane/crossplane/verif/explore"
	"github.com/crossplane/crossplane/verif/report"
	"github.com/crossplane/crossplane/verif/simkube"
	"github.com/crossplane/crossplane/verif/xrh"
)

// reject: how the API server answers the apply of the resource: 0 accepted,
// 1 Invalid (422), 2 NotFound (404: its namespace does not exist), 3 Forbidden (403).
type resSpec struct {
	ready  bool
	reject int
}

var rejectKinds = 4

type forge struct {
	ctype  string // "" = none
	status fnv1.Status
	target fnv1.Target
}

type params struct {
	res         []resSpec
	xrReady     int // 0 unset 1 true 2 false
	forge       forge
	statusForge int // 0 none, 1 status.conditions forged, 2 status.claimConditionTypes forged
	fatalStep   int // 0 none, 1 first step (same response as the conditions), 2 second step
	initial     int // 0 none, 1 Ready/Synced False, 2 + custom conditions present
	ssaClaim    bool
}

func (p params) String() string {
	return fmt.Sprintf("res=%v xrReady=%d forge=%s/%v/%v statusForge=%d fatal=%d initial=%d ssaClaim=%v", p.res, p.xrReady, p.forge.ctype, p.forge.status, p.forge.target, p.statusForge, p.fatalStep, p.initial, p.ssaClaim)
}

var resNames = []string{"a", "b"}

func pipelineFn(p params, withForge bool) xrh.FunctionRunner {
	return func(_ context.Context, name string, req *fnv1.RunFunctionRequest) (*fnv1.RunFunctionResponse, error) {
		rsp := &fnv1.RunFunctionResponse{Context: req.GetContext(), Desired: req.GetDesired()}
		if name == "compose" {
			d := &fnv1.State{Resources: map[string]*fnv1.Resource{}}
			for i, rs := range p.res {
				dr := xrh.DesiredResource(resNames[i], "p", rs.ready)
				if rs.reject != 0 {
					dr.Resource.Fields["spec"].GetStructValue().Fields["reject"] = structpb.NewNumberValue(float64(rs.reject))
				}
				d.Resources[resNames[i]] = dr
			}
			xr := map[string]any{"status": map[string]any{"out": "v"}}
			if withForge {
				switch p.statusForge {
				case 1:
					xr["status"].(map[string]any)["conditions"] = []any{
						map[string]any{"type": "Ready", "status": "True", "reason": "Available", "lastTransitionTime": "2000-01-01T00:00:00Z"},
						map[string]any{"type": "Synced", "status": "True", "reason": "ReconcileSuccess", "lastTransitionTime": "2000-01-01T00:00:00Z"},
					}
				case 2:
					xr["status"].(map[string]any)["claimConditionTypes"] = []any{"Ready", "Synced"}
				}
			}
			xs, _ := structpb.NewStruct(xr)
			d.Composite = &fnv1.Resource{Resource: xs}
			switch p.xrReady {
			case 1:
				d.Composite.Ready = fnv1.Ready_READY_TRUE
			case 2:
				d.Composite.Ready = fnv1.Ready_READY_FALSE
			}
			rsp.Desired = d
			if withForge && p.forge.ctype != "" {
				rsp.Conditions = []*fnv1.Condition{{Type: p.forge.ctype, Status: p.forge.status, Reason: "Forged", Target: p.forge.target.Enum()}}
			}
			if p.fatalStep == 1 {
				rsp.Results = []*fnv1.Result{{Severity: fnv1.Severity_SEVERITY_FATAL, Message: "boom"}}
			}
		}
		if name == "second" && p.fatalStep == 2 {
			rsp.Results = []*fnv1.Result{{Severity: fnv1.Severity_SEVERITY_FATAL, Message: "boom"}}
		}
		return rsp, nil
	}
}

type observation struct {
	xr, claim map[string]xpv1.Condition
	xrErr     error
	xrObj     *unstructured.Unstructured
}

func conds(u *unstructured.Unstructured) map[string]xpv1.Condition {
	out := map[string]xpv1.Condition{}
	if u == nil {
		return out
	}
	x := composite.Unstructured{Unstructured: *u}
	cs := xpv1.ConditionedStatus{}
	cl, _, _ := unstructured.NestedSlice(u.Object, "status", "conditions")
	for _, c := range cl {
		m, _ := c.(map[string]any)
		out[fmt.Sprint(m["type"])] = xpv1.Condition{Type: xpv1.ConditionType(fmt.Sprint(m["type"])), Status: corev1.ConditionStatus(fmt.Sprint(m["status"])), Reason: xpv1.ConditionReason(fmt.Sprint(m["reason"]))}
	}
	_, _ = x, cs
	return out
}

func invalidAdmission(op *simkube.AdmissionOp) error {
	if op.New == nil || op.Verb == "DELETE" {
		return nil
	}
	spec, _, _ := unstructured.NestedMap(op.New.Object, "spec")
	switch fmt.Sprint(spec["reject"]) {
	case "1":
		return kerrors.NewInvalid(op.Key.GK(), op.Key.Name, field.ErrorList{field.Invalid(field.NewPath("spec", "reject"), 1, "rejected by validation")})
	case "2":
		return kerrors.NewNotFound(schema.GroupResource{Resource: "namespaces"}, "later")
	case "3":
		return kerrors.NewForbidden(schema.GroupResource{Group: op.Key.Group, Resource: strings.ToLower(op.Key.Kind) + "s"}, op.Key.Name, fmt.Errorf("denied by policy"))
	}
	return nil
}

func seedInitialConditions(xr *composite.Unstructured, initial int) {
	switch initial {
	case 1, 2:
		xr.SetConditions(xpv1.Creating(), xpv1.ReconcileError(fmt.Errorf("earlier failure")))
	}
	if initial == 2 {
		xr.SetConditions(xpv1.Condition{Type: "Custom2", Status: corev1.ConditionTrue, Reason: "Earlier", LastTransitionTime: metav1.Now()},
			xpv1.Condition{Type: "Custom", Status: corev1.ConditionFalse, Reason: "Earlier", LastTransitionTime: metav1.Now()})
		_ = xr.SetClaimConditionTypes("Custom2")
	}
}

// runPipeline runs one XR reconcile then one claim reconcile.
func runPipeline(p params, withForge bool) observation {
	xrh.BeginExecution(5)
	s := xrh.NewStore()
	xrd := xrh.XRD()
	s.Seed(xrd)
	s.Admit = append(s.Admit, invalidAdmission)
	xrh.SeedComposition(s, xrh.PipelineComposition("comp", "compose", "second"))
	xr := xrh.XR("xr1", "comp")
	xr.SetClaimReference(&claimRef)
	xr.SetLabels(map[string]string{"crossplane.io/claim-name": "cm", "crossplane.io/claim-namespace": "ns"})
	seedInitialConditions(xr, p.initial)
	s.Seed(xr)
	cm := xrh.Claim("ns", "cm")
	cm.SetResourceReference(&reference.Composite{APIVersion: xrh.XRGVK.GroupVersion().String(), Kind: xrh.XRGVK.Kind, Name: "xr1"})
	if p.initial == 2 {
		// The claim mirrors the custom condition the XR lists for it, as an
		// earlier claim reconcile left it.
		cm.SetConditions(xpv1.Condition{Type: "Custom2", Status: corev1.ConditionTrue, Reason: "Earlier", LastTransitionTime: metav1.Now()})
	}
	s.Seed(cm)
	c := s.Client("xr")
	rec := xrh.NewXRReconciler(xrd, xrh.XROptions{Cached: c, Runner: pipelineFn(p, withForge)})
	var o observation
	// Two reconciles: the first may only initialise the XR (finalizer,
	// labels) and requeue on conflict.
	for i := 0; i < 3; i++ {
		out := xrh.Reconcile(rec, types.NamespacedName{Name: "xr1"})
		o.xrErr = out.Err
	}
	o.xrObj = s.Peek(xrh.XRKey("xr1"))
	o.xr = conds(o.xrObj)
	crec := xrh.NewClaimReconciler(xrd, s.Client("claim"), p.ssaClaim)
	for i := 0; i < 2; i++ {
		xrh.Reconcile(crec, types.NamespacedName{Namespace: "ns", Name: "cm"})
	}
	o.claim = conds(s.Peek(xrh.ClaimKey("ns", "cm")))
	return o
}

var claimRef = reference.Claim{APIVersion: xrh.ClaimGVK.GroupVersion().String(), Kind: xrh.ClaimGVK.Kind, Namespace: "ns", Name: "cm"}

func sysSummary(m map[string]xpv1.Condition) string {
	var out []string
	for _, t := range []string{"Ready", "Synced", "Healthy"} {
		c, ok := m[t]
		out = append(out, fmt.Sprintf("%s=%v/%s/%s", t, ok, c.Status, c.Reason))
	}
	return strings.Join(out, " ")
}

func pipelineBody(r *explore.Run, rep *report.R, sc string, maxRes int) {
	p := params{}
	forges := []forge{{}}
	for _, t := range []string{"Ready", "Synced", "Healthy", "Custom"} {
		for _, st := range []fnv1.Status{fnv1.Status_STATUS_CONDITION_TRUE, fnv1.Status_STATUS_CONDITION_FALSE} {
			for _, tg := range []fnv1.Target{fnv1.Target_TARGET_COMPOSITE, fnv1.Target_TARGET_COMPOSITE_AND_CLAIM} {
				forges = append(forges, forge{t, st, tg})
			}
		}
	}
	p.forge = forges[r.Free(len(forges), "forge")]
	n := r.Free(maxRes+1, "n")
	for i := 0; i < n; i++ {
		p.res = append(p.res, resSpec{ready: r.Bool(fmt.Sprintf("ready%d", i)), reject: r.Free(rejectKinds, fmt.Sprintf("apply-answer%d(ok,422,404,403)", i))})
	}
	p.xrReady = r.Free(3, "xrReady")
	p.statusForge = r.Free(3, "statusForge")
	p.fatalStep = r.Free(3, "fatalStep")
	p.initial = r.Free(3, "initial")
	p.ssaClaim = r.Bool("ssaClaim")

	o := runPipeline(p, true)
	base := runPipeline(p, false)
	r.Logf("%s => xr[%s] claim[%s] err=%v", p, sysSummary(o.xr), sysSummary(o.claim), o.xrErr)

	fatal := p.fatalStep != 0
	allReady, allApplied := true, true
	for _, rs := range p.res {
		allReady = allReady && rs.ready
		allApplied = allApplied && rs.reject == 0
	}
	mayReady := !fatal && (p.xrReady == 1 || (p.xrReady == 0 && allReady))
	maySynced := !fatal && allApplied
	if o.xr["Ready"].Status == corev1.ConditionTrue && !mayReady {
		r.Failf("xr/ready-overstated/pipeline", "XR reported Ready=True although %s", p)
	}
	if o.xr["Synced"].Status == corev1.ConditionTrue && !maySynced {
		r.Failf("xr/synced-overstated/pipeline", "XR reported Synced=True although %s", p)
	}
	// Not vacuous: when allowed and nothing forged, they are in fact True.
	if mayReady && base.xr["Ready"].Status != corev1.ConditionTrue && base.xrErr == nil {
		r.Failf("harness/ready-never-true", "expected Ready=True for %s, got %s (err %v)", p, sysSummary(base.xr), base.xrErr)
	}
	if a, b := sysSummary(o.xr), sysSummary(base.xr); a != b {
		r.Failf("xr/system-condition-forged/"+p.forge.ctype+fmt.Sprint(p.statusForge), "function-supplied conditions changed the XR's system conditions: with forgery [%s], without [%s] (%s)", a, b, p)
	}
	if a, b := sysSummary(o.claim), sysSummary(base.claim); a != b {
		r.Failf("claim/system-condition-forged/"+p.forge.ctype+fmt.Sprint(p.statusForge), "function-supplied conditions changed the claim's system conditions: with forgery [%s], without [%s] (%s)", a, b, p)
	}
	if fatal && p.initial == 2 {
		if c := o.xr["Custom2"]; c.Status != corev1.ConditionUnknown {
			r.Failf("xr/custom-not-unknown-after-fatal", "custom condition Custom2 was not re-asserted because of a fatal error but is %q, want Unknown (%s)", c.Status, p)
		}
		// ... and so does its copy on the claim (Custom2 is listed in the
		// XR's claimConditionTypes and was True on the claim before).
		if c := o.claim["Custom2"]; c.Status != corev1.ConditionUnknown {
			r.Failf("claim/custom-not-unknown-after-fatal", "custom condition Custom2, mirrored on the claim, was not re-asserted because of a fatal error; the XR says Unknown but the claim still says %q (%s)", c.Status, p)
		}
		asserted := p.forge.ctype == "Custom"
		if c := o.xr["Custom"]; !asserted && c.Status != corev1.ConditionUnknown {
			r.Failf("xr/custom-not-unknown-after-fatal", "custom condition Custom was not re-asserted because of a fatal error but is %q, want Unknown (%s)", c.Status, p)
		}
	}
	// (An apply answered 404 / 403 aborts the composition with an error: the
	// results of the pipeline, custom conditions included, are not processed
	// then, and the statement does not ask for it.)
	composeAborted := false
	for _, rs := range p.res {
		composeAborted = composeAborted || rs.reject > 1
	}
	if p.forge.ctype == "Custom" && !composeAborted {
		want := corev1.ConditionTrue
		if p.forge.status == fnv1.Status_STATUS_CONDITION_FALSE {
			want = corev1.ConditionFalse
		}
		if c := o.xr["Custom"]; c.Status != want {
			r.Failf("xr/custom-dropped", "function asserted Custom=%s but XR has %q (%s)", want, c.Status, p)
		}
	}
	if o.claim["Ready"].Status == corev1.ConditionTrue && o.xr["Ready"].Status != corev1.ConditionTrue {
		r.Failf("claim/ready-without-xr-ready", "claim Ready=True while its XR is %s (%s)", sysSummary(o.xr), p)
	}
	out := report.Hash(sysSummary(o.xr), sysSummary(o.claim), o.xr["Custom"].Status, o.xr["Custom2"].Status)
	nt := ""
	if len(p.res) > 0 || p.forge.ctype != "" || p.statusForge != 0 {
		nt = report.Hash(p.String())
	}
	rep.Eval(sc, out, nt)
	if rep.WantSample() && p.forge.ctype != "" && len(p.res) > 0 {
		rep.Sample(map[string]any{"scenario": sc, "params": p.String(), "xr_conditions": sysSummary(o.xr), "claim_conditions": sysSummary(o.claim)})
	}
}

// ---- P&T -------------------------------------------------------------------

type ptRes struct {
	ready   bool // every readiness check satisfied
	met     int  // bit 0: status.phase == Ready (first check), bit 1: status.id set (last check)
	outcome int  // 0 applied, 1 rejected as invalid, 2 render failure (required patch source missing), 3 rejected 404, 4 rejected 403
}

func ptBody(r *explore.Run, rep *report.R, sc string) {
	n := 1 + r.Free(2, "n")
	var rs []ptRes
	for i := 0; i < n; i++ {
		// Two readiness checks per template; the provider may satisfy none,
		// only the first, only the last, or both.
		m := r.Free(4, fmt.Sprintf("readiness-checks-met%d", i))
		rs = append(rs, ptRes{ready: m == 3, met: m, outcome: r.Free(5, fmt.Sprintf("outcome%d", i))})
	}
	initial := r.Free(2, "initial")
	ssa := r.Bool("ssaClaim")
	xrh.BeginExecution(5)
	s := xrh.NewStore()
	xrd := xrh.XRD()
	s.Seed(xrd)
	s.Admit = append(s.Admit, invalidAdmission)
	var ts []xrh.Template
	for i, x := range rs {
		x := x
		t := xrh.Template{Name: resNames[i], GVK: xrh.KindFor(resNames[i])}
		t.Extra = func(ct *v1.ComposedTemplate) {
			fp := "status.phase"
			ms := "Ready"
			ct.ReadinessChecks = []v1.ReadinessCheck{
				{Type: v1.ReadinessCheckTypeMatchString, FieldPath: fp, MatchString: ms},
				{Type: v1.ReadinessCheckTypeNonEmpty, FieldPath: "status.id"},
			}
			if rj := map[int]int{1: 1, 3: 2, 4: 3}[x.outcome]; rj != 0 {
				ct.Base.Raw = []byte(strings.Replace(string(ct.Base.Raw), `"fixed":"v"`, fmt.Sprintf(`"fixed":"v","reject":%d`, rj), 1))
			}
		}
		if x.outcome == 2 {
			from := "spec.missing"
			req := v1.FromFieldPathPolicyRequired
			t.Patches = []v1.Patch{{Type: v1.PatchTypeFromCompositeFieldPath, FromFieldPath: &from, ToFieldPath: &from, Policy: &v1.PatchPolicy{FromFieldPath: &req}}}
		}
		ts = append(ts, t)
	}
	xrh.SeedComposition(s, xrh.ResourcesComposition("comp", ts...))
	xr := xrh.XR("xr1", "comp")
	xr.SetClaimReference(&claimRef)
	xr.SetLabels(map[string]string{"crossplane.io/claim-name": "cm", "crossplane.io/claim-namespace": "ns"})
	seedInitialConditions(xr, initial)
	s.Seed(xr)
	cm := xrh.Claim("ns", "cm")
	cm.SetResourceReference(&reference.Composite{APIVersion: xrh.XRGVK.GroupVersion().String(), Kind: xrh.XRGVK.Kind, Name: "xr1"})
	s.Seed(cm)
	c := s.Client("xr")
	rec := xrh.NewXRReconciler(xrd, xrh.XROptions{Cached: c, Runner: pipelineFn(params{}, false)})
	check := func(stage string, readyNow []bool) {
		xo := s.Peek(xrh.XRKey("xr1"))
		cs := conds(xo)
		allReady, allSynced := true, true
		for i, x := range rs {
			allReady = allReady && readyNow[i] && x.outcome == 0
			allSynced = allSynced && x.outcome == 0
		}
		if cs["Ready"].Status == corev1.ConditionTrue && !allReady {
			r.Failf("xr/ready-overstated/pt", "%s: XR Ready=True although resources %v (ready now %v)", stage, rs, readyNow)
		}
		if cs["Synced"].Status == corev1.ConditionTrue && !allSynced {
			r.Failf("xr/synced-overstated/pt", "%s: XR Synced=True although resources %v", stage, rs)
		}
		crec := xrh.NewClaimReconciler(xrd, s.Client("claim"), ssa)
		xrh.Reconcile(crec, types.NamespacedName{Namespace: "ns", Name: "cm"})
		cc := conds(s.Peek(xrh.ClaimKey("ns", "cm")))
		if cc["Ready"].Status == corev1.ConditionTrue && conds(s.Peek(xrh.XRKey("xr1")))["Ready"].Status != corev1.ConditionTrue {
			r.Failf("claim/ready-without-xr-ready", "%s: claim Ready=True while XR is %s", stage, sysSummary(cs))
		}
		r.Logf("%s: xr[%s] claim[%s]", stage, sysSummary(cs), sysSummary(cc))
	}
	none := make([]bool, n)
	for i := 0; i < 3; i++ {
		xrh.Reconcile(rec, types.NamespacedName{Name: "xr1"})
		check(fmt.Sprintf("reconcile %d", i), none)
	}
	// The providers make the chosen resources ready.
	now := make([]bool, n)
	for i, x := range rs {
		if x.met == 0 {
			continue
		}
		for _, o := range s.All(xrh.KindFor(resNames[i]).GroupKind()) {
			s.Mutate(simkube.KeyOf(o), func(u *unstructured.Unstructured) {
				if x.met&1 != 0 {
					_ = unstructured.SetNestedField(u.Object, "Ready", "status", "phase")
				}
				if x.met&2 != 0 {
					_ = unstructured.SetNestedField(u.Object, "id-1", "status", "id")
				}
			})
			now[i] = x.met == 3
		}
	}
	for i := 0; i < 2; i++ {
		xrh.Reconcile(rec, types.NamespacedName{Name: "xr1"})
		check(fmt.Sprintf("after-ready reconcile %d", i), now)
	}
	final := conds(s.Peek(xrh.XRKey("xr1")))
	allOK := true
	for _, x := range rs {
		allOK = allOK && x.ready && x.outcome == 0
	}
	if allOK && final["Ready"].Status != corev1.ConditionTrue {
		r.Failf("harness/pt-ready-never-true", "all resources ready and applied but XR is %s", sysSummary(final))
	}
	var keys []string
	for _, x := range rs {
		keys = append(keys, fmt.Sprintf("%v/%d", x.ready, x.outcome))
	}
	sort.Strings(keys)
	rep.Eval(sc, report.Hash(sysSummary(final)), report.Hash(rs, initial, ssa))
	if rep.WantSample() {
		rep.Sample(map[string]any{"scenario": sc, "resources(ready,outcome)": keys, "xr_conditions": sysSummary(final)})
	}
}

func TestCheck(t *testing.T) {
	rep := report.New("C05", "exploration")
	rep.Meta(
		"Full product of: number of desired resources x per-resource (ready, apply answered ok | 422 Invalid | 404 NotFound (namespace missing) | 403 Forbidden | render failure for P&T) x XR-level ready {unset,true,false} x one function condition of type {Ready,Synced,Healthy,Custom} x {True,False} x target {composite, composite+claim} (or none) x forged desired-XR status {none, status.conditions, status.claimConditionTypes} x fatal at step {none,1,2} x initial XR conditions x claim syncer; each case runs the real XR reconciler (3 reconciles) and the real claim reconciler twice over simkube, once with and once without the function-supplied conditions (differential oracle). Non-trivial: at least one desired resource or a forged condition; distinct by parameter tuple. Scenario claim-cache-lag: the XR's readiness history {ready then unready, unready then ready, steady} x the claim controller's cache 0..3 XR versions behind x claim syncer; every copy of the XR the claim reconcile is given (cached read, API server answers to its writes) is recorded, and a claim status write with Ready=True requires the most recent copy to be Ready=True.",
		[]string{"simkube models the API server; XR and claim kinds use the list types of the CRDs generated by internal/xcrd for server-side apply", "initial XR conditions never contain Ready=True or Synced=True, so a True condition after the run was reported by the run"},
		[]string{"simkube", "structured-merge-diff (real)", "apiextensions-apiserver structural schema conversion"},
	)
	maxRes := 1
	if report.Thorough() {
		maxRes = 2
	}
	rep.Bound("max_desired_resources", maxRes)
	scs := []report.Scenario{
		{Name: "pipeline", Bound: 0, Wrap: report.Bubble(t), Body: func(r *explore.Run) { pipelineBody(r, rep, "pipeline", maxRes) }},
		{Name: "long-lived-reconciler", Bound: 0, Wrap: report.Bubble(t), Body: func(r *explore.Run) { seqBody(r, rep, "long-lived-reconciler") }},
		{Name: "pt", Bound: 0, Wrap: report.Bubble(t), Body: func(r *explore.Run) { ptBody(r, rep, "pt") }},
		{Name: "claim-cache-lag", Bound: 0, Wrap: report.Bubble(t), Body: func(r *explore.Run) { claimLagBody(r, rep, "claim-cache-lag") }},
	}
	rep.SelfCheck(t, scs[0], nil)
	rep.RunScenarios(t, scs)
	rep.Write(t)
}
