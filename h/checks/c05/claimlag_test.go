package c05

import (
	"context"
	"fmt"

	corev1 "k8s.io/api/core/v1"
	"k8s.io/apimachinery/pkg/apis/meta/v1/unstructured"
	"k8s.io/apimachinery/pkg/types"
	"sigs.k8s.io/controller-runtime/pkg/client"

	"github.com/crossplane/crossplane-runtime/pkg/resource/unstructured/reference"

	v1 "github.com/crossplane/crossplane/apis/apiextensions/v1"
	"github.com/crossplane/crossplane/verif/explore"
	"github.com/crossplane/crossplane/verif/report"
	"github.com/crossplane/crossplane/verif/simkube"
	"github.com/crossplane/crossplane/verif/xrh"
)

// ---- scenario: the claim controller's cache lags the XR ---------------------------
//
// "A claim is reported Ready=True only by a reconcile that observed its bound
// XR Ready=True." A claim reconcile sees its XR several times: the (possibly
// stale) cached read, and the API server's answer to every write it makes to
// the XR. What counts is the most recent of those observations: a reconcile
// that has been shown the XR Ready=False must not report the claim Ready=True
// from an older copy.

// observingClient records, for the XR kind, the Ready condition of every
// object version handed to the claim reconciler, and checks every claim
// status write against the latest one.
type observingClient struct {
	client.Client
	stale    *simkube.Client
	lag      int
	r        *explore.Run
	seen     []string // Ready status of each XR version received, in order
	reported []string // claim Ready status of each claim status write
}

func readyOf(o client.Object) string {
	u, ok := o.(interface{ UnstructuredContent() map[string]any })
	if !ok {
		return "?"
	}
	cs, _, _ := unstructured.NestedSlice(u.UnstructuredContent(), "status", "conditions")
	for _, c := range cs {
		m, _ := c.(map[string]any)
		if m["type"] == "Ready" {
			return fmt.Sprint(m["status"])
		}
	}
	return "unset"
}

func (c *observingClient) isXR(o client.Object) bool {
	return o.GetObjectKind().GroupVersionKind().Kind == xrh.XRGVK.Kind
}

func (c *observingClient) Get(ctx context.Context, key client.ObjectKey, obj client.Object, opts ...client.GetOption) error {
	if !c.isXR(obj) || c.lag == 0 {
		err := c.Client.Get(ctx, key, obj, opts...)
		if err == nil && c.isXR(obj) {
			c.seen = append(c.seen, readyOf(obj))
		}
		return err
	}
	rd := c.stale.S.Lagging("claim-cache", func(simkube.ObjKey, int) int { return c.lag })
	err := rd.Get(ctx, key, obj, opts...)
	if err == nil {
		c.seen = append(c.seen, readyOf(obj))
	}
	return err
}

func (c *observingClient) Patch(ctx context.Context, obj client.Object, p client.Patch, opts ...client.PatchOption) error {
	err := c.Client.Patch(ctx, obj, p, opts...)
	if err == nil && c.isXR(obj) {
		c.seen = append(c.seen, readyOf(obj))
	}
	return err
}

func (c *observingClient) Update(ctx context.Context, obj client.Object, opts ...client.UpdateOption) error {
	err := c.Client.Update(ctx, obj, opts...)
	if err == nil && c.isXR(obj) {
		c.seen = append(c.seen, readyOf(obj))
	}
	return err
}

func (c *observingClient) Status() client.SubResourceWriter {
	return &observingStatus{SubResourceWriter: c.Client.Status(), c: c}
}

type observingStatus struct {
	client.SubResourceWriter
	c *observingClient
}

func (s *observingStatus) Update(ctx context.Context, obj client.Object, opts ...client.SubResourceUpdateOption) error {
	if obj.GetObjectKind().GroupVersionKind().Kind == xrh.ClaimGVK.Kind {
		s.c.reported = append(s.c.reported, readyOf(obj))
	}
	return s.SubResourceWriter.Update(ctx, obj, opts...)
}

func claimLagBody(r *explore.Run, rep *report.R, sc string) {
	ssa := r.Bool("ssaClaim")
	lag := r.Free(4, "xr-cache-lag")      // versions behind
	flip := r.Free(3, "xr-ready-history") // 0: ready then unready; 1: unready then ready; 2: steady ready
	xrh.BeginExecution(5)
	s := xrh.NewStore()
	xrd := xrh.XRD()
	s.Seed(xrd)
	t := xrh.Template{Name: "a", GVK: xrh.KindFor("a")}
	t.Extra = func(ct *v1.ComposedTemplate) {
		fp, ms := "status.phase", "Ready"
		ct.ReadinessChecks = []v1.ReadinessCheck{{Type: v1.ReadinessCheckTypeMatchString, FieldPath: fp, MatchString: ms}}
	}
	xrh.SeedComposition(s, xrh.ResourcesComposition("comp", t))
	xr := xrh.XR("xr1", "comp")
	xr.SetClaimReference(&claimRef)
	xr.SetLabels(map[string]string{"crossplane.io/claim-name": "cm", "crossplane.io/claim-namespace": "ns"})
	s.Seed(xr)
	cm := xrh.Claim("ns", "cm")
	cm.SetResourceReference(&reference.Composite{APIVersion: xrh.XRGVK.GroupVersion().String(), Kind: xrh.XRGVK.Kind, Name: "xr1"})
	s.Seed(cm)
	rec := xrh.NewXRReconciler(xrd, xrh.XROptions{Cached: s.Client("xr"), Runner: pipelineFn(params{}, false)})
	xrNN := types.NamespacedName{Name: "xr1"}
	setPhase := func(p string) {
		for _, o := range s.All(xrh.KindFor("a").GroupKind()) {
			s.Mutate(simkube.KeyOf(o), func(u *unstructured.Unstructured) { _ = unstructured.SetNestedField(u.Object, p, "status", "phase") })
		}
	}
	claimOnce := func(l int, tag string) *observingClient {
		oc := &observingClient{Client: s.Client("claim"), stale: s.Client("claim"), lag: l, r: r}
		crec := xrh.NewClaimReconciler(xrd, oc, ssa)
		out := xrh.Reconcile(crec, types.NamespacedName{Namespace: "ns", Name: "cm"})
		// What the reconcile reports is its last status write (an earlier one
		// in the same reconcile may still carry the condition of the previous
		// reconcile).
		if n := len(oc.reported); n > 0 && oc.reported[n-1] == "True" {
			last := "never seen"
			if m := len(oc.seen); m > 0 {
				last = oc.seen[m-1]
			}
			if last != "True" {
				r.Failf("claim/ready-from-older-observation", "%s: the claim is reported Ready=True although the most recent copy of its XR this reconcile was given is Ready=%s (all copies, in order: %v)", tag, last, oc.seen)
			}
		}
		r.Logf("%s: claim reconcile (lag %d) err=%v saw XR Ready %v, reported claim Ready %v; store: xr[%s] claim[%s]", tag, l, out.Err, oc.seen, oc.reported,
			sysSummary(conds(s.Peek(xrh.XRKey("xr1")))), sysSummary(conds(s.Peek(xrh.ClaimKey("ns", "cm")))))
		return oc
	}
	xrh.Reconcile(rec, xrNN)
	xrh.Reconcile(rec, xrNN)
	first, second := "Ready", "Pending"
	switch flip {
	case 1:
		first, second = "Pending", "Ready"
	case 2:
		first, second = "Ready", "Ready"
	}
	setPhase(first)
	xrh.Reconcile(rec, xrNN)
	claimOnce(0, "first phase")
	setPhase(second)
	xrh.Reconcile(rec, xrNN)
	oc := claimOnce(lag, "second phase")
	// The strict end state, for the cases where the reconcile was given the
	// current XR at least once.
	xrReady := conds(s.Peek(xrh.XRKey("xr1")))["Ready"].Status == corev1.ConditionTrue
	cmReady := conds(s.Peek(xrh.ClaimKey("ns", "cm")))["Ready"].Status == corev1.ConditionTrue
	nt := ""
	if lag > 0 && flip != 2 {
		nt = report.Hash(sc, ssa, lag, flip)
	}
	rep.Eval(sc, report.Hash(xrReady, cmReady, oc.seen), nt)
	if rep.WantSample() && nt != "" {
		rep.Sample(map[string]any{"scenario": sc, "ssa": ssa, "xr_cache_lag": lag, "history": flip, "xr_ready_copies_seen": oc.seen, "claim_ready_reported": oc.reported})
	}
}
