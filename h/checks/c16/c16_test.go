// C16: establishing package objects is all-or-nothing and respects the
// active / inactive role. Depth-bounded exhaustive search over upgrade and
// rollback histories: package source edits, real package-manager reconciles
// (which activate / deactivate revisions), real package-revision reconciles in
// any order (real parser, linter, cache, APIEstablisher), Kubernetes garbage
// collector runs and deletion of inactive revisions, with an API error at any
// call of a revision reconcile.
package c16

import (
	"context"
	"fmt"
	"os"
	"sort"
	"strings"
	"testing"

	regv1 "github.com/google/go-containerregistry/pkg/v1"
	"github.com/spf13/afero"
	corev1 "k8s.io/api/core/v1"
	kerrors "k8s.io/apimachinery/pkg/api/errors"
	metav1 "k8s.io/apimachinery/pkg/apis/meta/v1"
	"k8s.io/apimachinery/pkg/apis/meta/v1/unstructured"
	"k8s.io/apimachinery/pkg/runtime/schema"
	"k8s.io/apimachinery/pkg/types"
	"k8s.io/apimachinery/pkg/util/validation/field"
	"sigs.k8s.io/controller-runtime/pkg/reconcile"

	v1 "github.com/crossplane/crossplane/apis/pkg/v1"
	"github.com/crossplane/crossplane/internal/xpkg"
	"github.com/crossplane/crossplane/verif/explore"
	"github.com/crossplane/crossplane/verif/pkgh"
	"github.com/crossplane/crossplane/verif/report"
	"github.com/crossplane/crossplane/verif/simkube"
	"github.com/crossplane/crossplane/verif/xrh"
)

const (
	repoP = "acme/provider-p"
	repoQ = "acme/provider-q"
)

var (
	crdGK   = schema.GroupKind{Group: "apiextensions.k8s.io", Kind: "CustomResourceDefinition"}
	revGK   = v1.ProviderRevisionGroupVersionKind.GroupKind()
	pkgKeyP = simkube.ObjKey{Group: "pkg.crossplane.io", Kind: "Provider", Name: "p"}
)

func crdName(kind string) string { return strings.ToLower(kind) + "s.ex.org" }

// Image contents. A = {X(a), Y}; B variants.
func streamA(variant string) []byte {
	docs := []string{pkgh.MetaYAML("Provider", "p", ""), pkgh.CRDYAML("ex.org", "KX", "a"), pkgh.CRDYAML("ex.org", "KY", "a")}
	if variant == "twin-names" {
		docs = append(docs, twinDocs()...)
	}
	return pkgh.Stream(docs...)
}

// Variant twin-names: both images also hold two objects that differ in
// nothing but their kind (same API version, same name) - a provider's
// mutating and validating webhook configurations.
// (The establisher names a provider's webhook configurations after the
// package, whatever their name in the image.)
var twinNames = []string{"MutatingWebhookConfiguration/crossplane-provider-p", "ValidatingWebhookConfiguration/crossplane-provider-p"}

func twinDocs() []string {
	return []string{pkgh.WebhookYAML("MutatingWebhookConfiguration", "p-hooks"), pkgh.WebhookYAML("ValidatingWebhookConfiguration", "p-hooks")}
}

var whGKs = []schema.GroupKind{{Group: "admissionregistration.k8s.io", Kind: "MutatingWebhookConfiguration"}, {Group: "admissionregistration.k8s.io", Kind: "ValidatingWebhookConfiguration"}}

func isPkgObjectGK(gk schema.GroupKind) bool { return gk == crdGK || gk == whGKs[0] || gk == whGKs[1] }

func streamB(variant string) ([]byte, []string) {
	docs := []string{pkgh.MetaYAML("Provider", "p", ""), pkgh.CRDYAML("ex.org", "KX", "b"), pkgh.CRDYAML("ex.org", "KZ", "b")}
	names := []string{crdName("KX"), crdName("KZ")}
	switch variant {
	case "conflict-q":
		docs = append(docs, pkgh.CRDYAML("ex.org", "KW", "b"))
		names = append(names, crdName("KW"))
	case "rejected", "rejected-existing":
		docs = append(docs, pkgh.CRDYAML("ex.org", "KBad", "b"))
		names = append(names, crdName("KBad"))
	case "foreign":
		docs = append(docs, pkgh.CRDYAML("ex.org", "KF", "b"))
		names = append(names, crdName("KF"))
	case "uncontrolled":
		docs = append(docs, pkgh.CRDYAML("ex.org", "KU", "b"))
		names = append(names, crdName("KU"))
	case "twin-names":
		docs = append(docs, twinDocs()...)
		names = append(names, twinNames...)
	}
	return pkgh.Stream(docs...), names
}

var imageCache = map[string]map[string]regv1.Image{}

// images are immutable and expensive to build (gzip, sha256): build once.
func images(variant string, bStream []byte) map[string]regv1.Image {
	if m, ok := imageCache[variant]; ok {
		return m
	}
	m := map[string]regv1.Image{
		"A": pkgh.BuildImage(streamA(variant), pkgh.AnnotatedBase, nil),
		"B": pkgh.BuildImage(bStream, pkgh.AnnotatedBase, nil),
		"Q": pkgh.BuildImage(pkgh.Stream(pkgh.MetaYAML("Provider", "q", ""), pkgh.CRDYAML("ex.org", "KW", "q")), pkgh.AnnotatedBase, nil),
	}
	imageCache[variant] = m
	return m
}

type prepared struct {
	store *simkube.Store
	files map[string][]byte
}

var preparedCache = map[string]*prepared{}

type world struct {
	s       *simkube.Store
	reg     *pkgh.Registry
	fs      afero.Fs
	r       *explore.Run
	inj     *xrh.FaultInjector
	cur     string // revision being reconciled
	curAct  bool   // its desiredState at the start of the reconcile
	variant string
	bNames  []string
	// third: what a third party did in the middle of the current revision
	// reconcile ("" = nothing), see interpose.
	third        []string
	thirdDeleted map[string]bool
	// wrote: the current revision reconcile has issued a write already;
	// deactivatedMidway: the package manager deactivated the revision being
	// reconciled after the reconciler had read it (see interpose).
	wrote, deactivatedMidway, readSelf bool
}

// interpose lets a third party act between two API calls of a revision
// reconcile, once per execution and at the cost of one deviation: just before
// a call that addresses one of the package's objects, that object is deleted
// (if it exists) or created under another owner's control (if it does not).
func (w *world) interpose(c simkube.Call) simkube.Outcome {
	// The package manager deactivates the revision that is being reconciled,
	// after the reconciler has read it and before its first write: that write
	// carries the resourceVersion it read and has to be refused.
	if w.inj.Armed && c.Client == "rev" && len(w.third) == 0 && !w.wrote && !w.deactivatedMidway && w.curAct && w.readSelf {
		if w.r.Choose(2, "manager-deactivates-revision-before:"+c.String()) == 1 {
			k := simkube.ObjKey{Group: revGK.Group, Kind: revGK.Kind, Name: w.cur}
			w.s.Mutate(k, func(u *unstructured.Unstructured) {
				_ = unstructured.SetNestedField(u.Object, string(v1.PackageRevisionInactive), "spec", "desiredState")
			})
			w.deactivatedMidway = true
			w.third = append(w.third, fmt.Sprintf("before %s the package manager deactivates %s", c, w.cur))
			w.r.Logf("MANAGER deactivates %s before %s", w.cur, c)
		}
	}
	if c.Client == "rev" && c.Write && !c.DryRun {
		defer func() { w.wrote = true }()
	}
	if c.Client == "rev" && c.Verb == "get" && c.Key.GK() == revGK && c.Key.Name == w.cur {
		defer func() { w.readSelf = true }()
	}
	if w.inj.Armed && c.Client == "rev" && c.Key.GK() == crdGK && len(w.third) == 0 && c.Key.Name != crdName("KW") && c.Key.Name != crdName("KF") {
		exists := w.s.Peek(c.Key) != nil
		what := "creates it under its own control"
		if exists {
			what = "deletes it"
		}
		if w.r.Choose(2, "third-party-before:"+c.String()) == 1 {
			if exists {
				w.s.Remove(c.Key)
				if w.thirdDeleted == nil {
					w.thirdDeleted = map[string]bool{}
				}
				w.thirdDeleted[c.Key.Name] = true
			} else {
				t := true
				f := &unstructured.Unstructured{}
				f.SetAPIVersion("apiextensions.k8s.io/v1")
				f.SetKind("CustomResourceDefinition")
				f.SetName(c.Key.Name)
				f.SetOwnerReferences([]metav1.OwnerReference{{APIVersion: "v1", Kind: "ConfigMap", Name: "rival", UID: "rival-uid", Controller: &t}})
				if w.s.Peek(simkube.ObjKey{Kind: "ConfigMap", Namespace: "default", Name: "rival"}) == nil {
					w.s.Seed(&corev1.ConfigMap{TypeMeta: metav1.TypeMeta{APIVersion: "v1", Kind: "ConfigMap"}, ObjectMeta: metav1.ObjectMeta{Namespace: "default", Name: "rival", UID: "rival-uid"}})
				}
				w.s.Seed(f)
			}
			w.third = append(w.third, fmt.Sprintf("before %s a third party %s", c, what))
			w.r.Logf("THIRD PARTY before %s: %s", c, what)
		}
	}
	return w.inj.Decide(c)
}

func (w *world) revName(label string) string { return xpkg.FriendlyID("p", pkgh.Digest(label)) }

func (w *world) revisionState(name string) (exists, active bool, uid types.UID) {
	u := w.s.Peek(simkube.ObjKey{Group: revGK.Group, Kind: revGK.Kind, Name: name})
	if u == nil {
		return false, false, ""
	}
	st, _, _ := unstructured.NestedString(u.Object, "spec", "desiredState")
	return true, st == string(v1.PackageRevisionActive), u.GetUID()
}

func (w *world) revByUID(uid types.UID) (name string, active, found bool) {
	for _, u := range w.s.All(revGK) {
		if u.GetUID() == uid {
			st, _, _ := unstructured.NestedString(u.Object, "spec", "desiredState")
			return u.GetName(), st == string(v1.PackageRevisionActive), true
		}
	}
	return "", false, false
}

func controllerUID(u *unstructured.Unstructured) types.UID {
	if u == nil {
		return ""
	}
	if c := metav1.GetControllerOf(u); c != nil {
		return c.UID
	}
	return ""
}

func (w *world) newRevReconciler() *revRec {
	return &revRec{pkgh.NewRevisionReconciler(pkgh.RevisionOptions{Kind: "Provider", Client: w.s.Client("rev"), Registry: w.reg, Fs: w.fs})}
}

func (w *world) onWrite(rec *simkube.WriteRecord) {
	if rec.Call.Client != "rev" || !isPkgObjectGK(rec.Call.Key.GK()) {
		return
	}
	// E2a: only an active revision creates objects.
	if rec.Before == nil && rec.After != nil && !w.curAct {
		w.r.FailLater("E2/inactive-created", "inactive revision %s created %s", w.cur, rec.Call.Key.Name)
	}
	_, _, curUID := w.revisionState(w.cur)
	if rec.After != nil && w.deactivatedMidway && (rec.Before == nil || (controllerUID(rec.After) == curUID && controllerUID(rec.Before) != curUID)) {
		w.r.FailLater("E2/created-or-took-control-from-stale-active-snapshot", "revision %s, which the package manager deactivated after the reconciler had read it and before its first write, performed %s (created the object or became its controller)", w.cur, rec.Call)
	}
	// E2b: only an active revision becomes controller.
	if rec.After != nil {
		after, before := controllerUID(rec.After), controllerUID(rec.Before)
		if after != "" && after != before {
			if n, act, ok := w.revByUID(after); ok && !act {
				w.r.FailLater("E2/inactive-controls", "%s made inactive revision %s the controller of %s", rec.Call, n, rec.Call.Key.Name)
			}
		}
	}
}

func crds(s *simkube.Store) map[string]*unstructured.Unstructured {
	out := map[string]*unstructured.Unstructured{}
	for _, u := range s.All(crdGK) {
		out[u.GetName()] = u
	}
	// (Other package objects are keyed Kind/name.)
	for _, gk := range whGKs {
		for _, u := range s.All(gk) {
			out[gk.Kind+"/"+u.GetName()] = u
		}
	}
	return out
}

func describe(s *simkube.Store) string {
	var out []string
	for _, u := range s.All(revGK) {
		st, _, _ := unstructured.NestedString(u.Object, "spec", "desiredState")
		out = append(out, fmt.Sprintf("%s(%s)", u.GetName(), st))
	}
	for n, u := range crds(s) {
		var os []string
		for _, o := range u.GetOwnerReferences() {
			c := ""
			if o.Controller != nil && *o.Controller {
				c = "*"
			}
			os = append(os, o.Kind[:4]+":"+o.Name+c)
		}
		sort.Strings(os)
		out = append(out, n+"<-"+strings.Join(os, "+"))
	}
	sort.Strings(out)
	return strings.Join(out, " ")
}

type revRec struct {
	r reconcile.Reconciler
}

type fsInfo = os.FileInfo

var ctxBG = context.Background()

func admission(op *simkube.AdmissionOp) error {
	if op.Key.GK() == crdGK && op.Key.Name == crdName("KBad") && op.Verb != "DELETE" {
		return kerrors.NewInvalid(crdGK, op.Key.Name, field.ErrorList{field.Invalid(field.NewPath("spec"), "x", "rejected by the API server")})
	}
	return nil
}

func mkProvider(name, repo string) *v1.Provider {
	one := int64(1)
	return &v1.Provider{
		TypeMeta:   metav1.TypeMeta{APIVersion: v1.SchemeGroupVersion.String(), Kind: v1.ProviderKind},
		ObjectMeta: metav1.ObjectMeta{Name: name},
		Spec:       v1.ProviderSpec{PackageSpec: v1.PackageSpec{Package: repo + ":v1", RevisionHistoryLimit: &one}},
	}
}

func registry(variant string) (*pkgh.Registry, []string) {
	bStream, bNames := streamB(variant)
	return &pkgh.Registry{
		Table:  map[string]string{repoP + ":v1": "A", repoP + ":v2": "B", repoQ + ":v1": "Q"},
		Images: images(variant, bStream),
	}, bNames
}

// prepare builds (once per variant, fault free, not explored) the initial
// state: package p at v1 with revision A active and established, plus the
// variant's pre-existing objects.
func prepare(variant string) *prepared {
	if pc, ok := preparedCache[variant]; ok {
		return pc
	}
	xrh.BeginExecution(1)
	s := xrh.NewStore()
	reg, _ := registry(variant)
	fs := afero.NewMemMapFs()
	s.Admit = append(s.Admit, admission)
	s.Seed(mkProvider("p", repoP))
	// The runtime hooks (not part of this closed system) normally create the
	// TLS server secret the establisher reads for webhook CA bundles.
	for _, n := range []string{"p", "q"} {
		s.Seed(&corev1.Secret{TypeMeta: metav1.TypeMeta{APIVersion: "v1", Kind: "Secret"}, ObjectMeta: metav1.ObjectMeta{Namespace: "crossplane-system", Name: n + "-tls-server"}, Data: map[string][]byte{"tls.crt": []byte("cert")}})
	}
	mgr := pkgh.NewProviderManager(s.Client("mgr"), reg)
	rr := pkgh.NewRevisionReconciler(pkgh.RevisionOptions{Kind: "Provider", Client: s.Client("rev"), Registry: reg, Fs: fs})
	var prepErr error
	for i := 0; i < 2; i++ {
		xrh.Reconcile(mgr, types.NamespacedName{Name: "p"})
		prepErr = xrh.Reconcile(rr, types.NamespacedName{Name: xpkg.FriendlyID("p", pkgh.Digest("A"))}).Err
	}
	switch variant {
	case "conflict-q":
		s.Seed(mkProvider("q", repoQ))
		for i := 0; i < 2; i++ {
			xrh.Reconcile(mgr, types.NamespacedName{Name: "q"})
			xrh.Reconcile(rr, types.NamespacedName{Name: xpkg.FriendlyID("q", pkgh.Digest("Q"))})
		}
		if c := crds(s)[crdName("KW")]; c == nil || controllerUID(c) == "" {
			panic(explore.HarnessError{Msg: "preparation: q did not establish W: " + describe(s)})
		}
	case "foreign":
		f := &unstructured.Unstructured{}
		f.SetAPIVersion("apiextensions.k8s.io/v1")
		f.SetKind("CustomResourceDefinition")
		f.SetName(crdName("KF"))
		t := true
		f.SetOwnerReferences([]metav1.OwnerReference{{APIVersion: "v1", Kind: "ConfigMap", Name: "someone", UID: "foreign-uid", Controller: &t}})
		s.Seed(f)
		s.Seed(&corev1.ConfigMap{TypeMeta: metav1.TypeMeta{APIVersion: "v1", Kind: "ConfigMap"}, ObjectMeta: metav1.ObjectMeta{Namespace: "default", Name: "someone", UID: "foreign-uid"}})
	case "uncontrolled":
		f := &unstructured.Unstructured{}
		f.SetAPIVersion("apiextensions.k8s.io/v1")
		f.SetKind("CustomResourceDefinition")
		f.SetName(crdName("KU"))
		s.Seed(f)
	case "rejected-existing":
		// The object the API server rejects already exists (its update is
		// what gets rejected).
		f := &unstructured.Unstructured{}
		f.SetAPIVersion("apiextensions.k8s.io/v1")
		f.SetKind("CustomResourceDefinition")
		f.SetName(crdName("KBad"))
		s.Seed(f)
	case "b-inactive-owner":
		// Revision B was created inactive (manual activation) and reconciled:
		// it is a plain owner of the objects it shares with A.
		s.Mutate(pkgKeyP, func(u *unstructured.Unstructured) {
			_ = unstructured.SetNestedField(u.Object, string(v1.ManualActivation), "spec", "revisionActivationPolicy")
			_ = unstructured.SetNestedField(u.Object, repoP+":v2", "spec", "package")
		})
		for i := 0; i < 2; i++ {
			xrh.Reconcile(mgr, types.NamespacedName{Name: "p"})
			xrh.Reconcile(rr, types.NamespacedName{Name: xpkg.FriendlyID("p", pkgh.Digest("B"))})
		}
	}
	if c := crds(s)[crdName("KX")]; c == nil {
		panic(explore.HarnessError{Msg: fmt.Sprintf("preparation: revision A not established: %s err=%v", describe(s), prepErr)})
	}
	pc := &prepared{store: s, files: map[string][]byte{}}
	_ = afero.Walk(fs, "/", func(p string, fi fsInfo, _ error) error {
		if fi != nil && !fi.IsDir() {
			b, _ := afero.ReadFile(fs, p)
			pc.files[p] = b
		}
		return nil
	})
	preparedCache[variant] = pc
	return pc
}

func body(r *explore.Run, rep *report.R, sc string, variant string, depth int) {
	pc := prepare(variant)
	xrh.BeginExecution(1)
	s := pc.store.Clone()
	reg, bNames := registry(variant)
	fs := afero.NewMemMapFs()
	for p, b := range pc.files {
		_ = afero.WriteFile(fs, p, b, 0o644)
	}
	w := &world{s: s, reg: reg, fs: fs, r: r, variant: variant, bNames: bNames}
	w.inj = &xrh.FaultInjector{Run: r, Reads: report.Thorough(), NoCrash: true, Filter: func(c simkube.Call) bool { return c.Client == "rev" }}
	if !report.Thorough() {
		// The quick tier varies the class of an injected API error; the
		// thorough tier spends its budget on reads as fault points and on two
		// more events per sequence instead.
		w.inj.WithErrClasses(s)
	}
	s.Inj = simkube.InjectorFn(w.interpose)
	mgr := pkgh.NewProviderManager(s.Client("mgr"), reg)
	rr := w.newRevReconciler()
	reconcileRev := func(name string) xrh.Outcome {
		_, act, _ := w.revisionState(name)
		w.cur, w.curAct = name, act
		w.wrote, w.deactivatedMidway, w.readSelf = false, false, false
		return xrh.Reconcile(rr.r, types.NamespacedName{Name: name})
	}
	s.OnWrite = append(s.OnWrite, w.onWrite)

	events := []string{"mgr", "rev-A", "rev-B", "src=v2", "src=v1", "gc", "delete-inactive-revisions", "toggle-manual-activation"}
	if variant == "twin-names" {
		// The TLS server secret the establisher reads for the webhook CA
		// bundle is made by the runtime hooks; it may not exist (yet, or any
		// more) when a revision is reconciled.
		events = append(events, "tls-secret-comes-and-goes")
	}
	var trail []string
	// Revisions that completed an active reconcile, by UID: a revision that
	// is deleted and created again under the same name is another revision,
	// which has never established anything.
	_, _, uidA := w.revisionState(w.revName("A"))
	established := map[string]bool{string(uidA): true}
	for step := 0; step < depth; step++ {
		var files []string
		_ = afero.Walk(w.fs, "/", func(p string, _ fsInfo, _ error) error { files = append(files, p); return nil })
		r.SeenRank(report.Hash(s.Canonical(), files, established), depth-step)
		ev := events[r.Free(len(events), fmt.Sprintf("ev%d", step))]
		trail = append(trail, ev)
		switch ev {
		case "mgr":
			xrh.Reconcile(mgr, types.NamespacedName{Name: "p"})
		case "src=v1", "src=v2":
			s.Mutate(pkgKeyP, func(u *unstructured.Unstructured) {
				_ = unstructured.SetNestedField(u.Object, repoP+":"+strings.TrimPrefix(ev, "src="), "spec", "package")
			})
		case "toggle-manual-activation":
			s.Mutate(pkgKeyP, func(u *unstructured.Unstructured) {
				cur, _, _ := unstructured.NestedString(u.Object, "spec", "revisionActivationPolicy")
				next := string(v1.ManualActivation)
				if cur == next {
					next = string(v1.AutomaticActivation)
				}
				_ = unstructured.SetNestedField(u.Object, next, "spec", "revisionActivationPolicy")
			})
		case "tls-secret-comes-and-goes":
			k := simkube.ObjKey{Kind: "Secret", Namespace: "crossplane-system", Name: "p-tls-server"}
			if s.Peek(k) != nil {
				s.Remove(k)
			} else {
				s.Seed(&corev1.Secret{TypeMeta: metav1.TypeMeta{APIVersion: "v1", Kind: "Secret"}, ObjectMeta: metav1.ObjectMeta{Namespace: "crossplane-system", Name: "p-tls-server"}, Data: map[string][]byte{"tls.crt": []byte("cert")}})
			}
		case "gc":
			before := crds(s)
			n := s.GCRun()
			after := crds(s)
			for name := range before {
				if after[name] == nil && s.Peek(pkgKeyP) != nil {
					r.Failf("E5/crd-garbage-collected", "the garbage collector deleted CRD %s (%d steps) while package p exists; trail %v; before: %s", name, n, trail, describeCRD(before[name]))
				}
			}
		case "delete-inactive-revisions":
			// History garbage collection by the package manager / a user.
			for _, u := range s.All(revGK) {
				if u.GetLabels()[v1.LabelParentPackage] != "p" {
					continue
				}
				if st, _, _ := unstructured.NestedString(u.Object, "spec", "desiredState"); st != string(v1.PackageRevisionActive) {
					_ = s.Client("user").Delete(ctxBG, u)
				}
			}
		case "rev-A", "rev-B":
			name := w.revName(strings.TrimPrefix(ev, "rev-"))
			exists, active, uid := w.revisionState(name)
			if !exists {
				continue
			}
			pre := crds(s)
			logStart := len(s.Log)
			taken := len(w.inj.Taken)
			thirdBefore := len(w.third)
			w.inj.Armed = true
			out := reconcileRev(name)
			w.inj.Armed = false
			r.Raise()
			faults := w.inj.Taken[taken:]
			post := crds(s)
			revU := s.Peek(simkube.ObjKey{Group: revGK.Group, Kind: revGK.Kind, Name: name})
			r.Logf("step %d: %s active=%v err=%v faults=%v -> %s", step, ev, active, out.Err, faults, describe(s))
			if revU == nil || revU.GetDeletionTimestamp() != nil {
				continue
			}
			// Effective real writes to package objects in this reconcile.
			var realWrites []string
			faultOnRealWrite := false
			for _, wr := range s.Log[logStart:] {
				if !isPkgObjectGK(wr.Call.Key.GK()) || wr.Call.Client != "rev" {
					continue
				}
				if wr.Effective && !wr.Call.DryRun {
					realWrites = append(realWrites, wr.Call.String())
				}
				if !wr.Call.DryRun && strings.HasPrefix(wr.Err, "injected") {
					faultOnRealWrite = true
				}
			}
			for _, f := range faults {
				if strings.Contains(f, "error-after") && !strings.Contains(f, "(dry)") && (strings.Contains(f, "CustomResourceDefinition") || strings.Contains(f, "WebhookConfiguration")) {
					faultOnRealWrite = true
				}
			}
			healthy := false
			conds, _, _ := unstructured.NestedSlice(revU.Object, "status", "conditions")
			for _, c := range conds {
				m, _ := c.(map[string]any)
				if m["type"] == "Healthy" && m["status"] == "True" {
					healthy = true
				}
			}
			// A reconcile that reports completion (no error, no requeue, Healthy)
			// is held to E3 / E4 also when a call inside it was answered with an
			// injected fault: nothing will retry it.
			completed := out.Err == nil && healthy && !out.Result.Requeue
			// An object a third party deleted in the middle of this reconcile is
			// legitimately missing afterwards, and a failure to find it is not
			// one of the reasons the property speaks about.
			thirdDeleted := w.thirdDeleted
			// E1: all or nothing. If the active revision could not establish
			// its objects, it wrote none of them (unless an injected fault hit
			// a real write half way, which no controller can avoid).
			// (A third party acting between the validation pass and the real
			// writes of this very reconcile is a race no controller can close;
			// all-or-nothing is judged on reconciles it did not interrupt.)
			establishFailed := out.Err != nil && strings.Contains(out.Err.Error(), "cannot establish control of object") && len(w.third) == thirdBefore
			if establishFailed && !faultOnRealWrite && len(realWrites) > 0 {
				r.Failf("E1/partial-establish/"+variant, "revision %s failed to establish its objects (err %v) yet performed %v", name, out.Err, realWrites)
			}
			want := []string{crdName("KX"), crdName("KY")}
			if variant == "twin-names" {
				want = append(want, twinNames...)
			}
			if ev == "rev-B" {
				want = w.bNames
			}
			if active && completed {
				established[string(uid)] = true
				for _, n := range want {
					c := post[n]
					if c == nil && thirdDeleted[n] {
						continue
					}
					if c == nil {
						r.Failf("E4/missing-object", "active revision %s reports healthy but %s does not exist", name, n)
					}
					if controllerUID(c) != uid {
						r.Failf("E4/not-controller", "active revision %s reports healthy but does not control %s (%s)", name, n, describeCRD(c))
					}
					pkgOwner := false
					for _, o := range c.GetOwnerReferences() {
						if o.Kind == v1.ProviderKind && o.Name == "p" && (o.Controller == nil || !*o.Controller) {
							pkgOwner = true
						}
					}
					if !pkgOwner {
						r.Failf("E4/package-not-owner", "%s established by %s does not keep package p as a non-controlling owner (%s)", n, name, describeCRD(c))
					}
				}
			}
			if !active && completed && established[string(uid)] {
				// E3: deactivation gives up control but keeps ownership.
				for _, n := range want {
					c := post[n]
					if c == nil {
						if pre[n] != nil && !thirdDeleted[n] {
							r.Failf("E3/object-deleted", "deactivating %s deleted %s", name, n)
						}
						continue
					}
					owner, ctrl := false, false
					for _, o := range c.GetOwnerReferences() {
						if o.UID == uid {
							owner = true
							ctrl = o.Controller != nil && *o.Controller
						}
					}
					if ctrl {
						r.Failf("E3/inactive-still-controller", "inactive revision %s completed its reconcile but still controls %s", name, n)
					}
					if !owner {
						r.Failf("E3/ownership-dropped", "inactive revision %s no longer owns %s after deactivation (%s)", name, n, describeCRD(c))
					}
				}
				// ... of every object it controls, whatever name it wrote it under.
				for n, c := range post {
					if controllerUID(c) == uid {
						r.Failf("E3/inactive-still-controller", "inactive revision %s completed its reconcile but still controls %s", name, n)
					}
				}
			}
			// Objects that could not be taken over are left exactly as they were.
			for _, n := range []string{crdName("KW"), crdName("KF")} {
				// (An inactive revision adding a plain owner reference is its
				// documented role and out of scope here.)
				if active && pre[n] != nil && (post[n] == nil || post[n].GetResourceVersion() != pre[n].GetResourceVersion()) {
					r.Failf("E1/foreign-object-modified", "%s, controlled by another owner, was changed by revision %s", n, name)
				}
			}
		}
	}
	nt := ""
	if len(w.inj.Taken) > 0 || len(w.third) > 0 || strings.Contains(strings.Join(trail, ","), "rev-B") {
		nt = report.Hash(variant, trail, w.inj.Taken, w.third)
	}
	rep.Eval(sc, report.Hash(describe(s)), nt)
	if rep.WantSample() && len(w.inj.Taken) > 0 {
		rep.Sample(map[string]any{"scenario": sc, "events": trail, "faults": w.inj.Taken, "final": describe(s)})
	}
}

func describeCRD(c *unstructured.Unstructured) string {
	if c == nil {
		return "<absent>"
	}
	var os []string
	for _, o := range c.GetOwnerReferences() {
		ctl := ""
		if o.Controller != nil && *o.Controller {
			ctl = "(controller)"
		}
		os = append(os, o.Kind+"/"+o.Name+ctl)
	}
	return c.GetName() + " owners=" + strings.Join(os, ",")
}

func TestCheck(t *testing.T) {
	rep := report.New("C16", "fault_enumeration")
	rep.Meta(
		"Executions are event sequences of bounded depth, starting from package p with revision A (objects X,Y) established, over {package-manager reconcile, revision-A reconcile, revision-B reconcile, source edit to v2 / v1, garbage collector run, deletion of inactive revisions}; every API call (reads included) of a revision reconcile is a fault point {error-before, conflict, error-after}; instead of a fault, a third party may act once just before a call that addresses a package object (it deletes the object, or creates it under another owner's control if it does not exist), or the package manager may deactivate the revision after the reconciler has read it and before its first write; <= 1 deviation per sequence. Image B variants: plain upgrade {X',Z}; + W controlled by a revision of another package q; + an object the API server rejects; + F controlled by a foreign owner; + U pre-existing and uncontrolled; both images with two objects that differ only in kind (webhook configurations of one name). DFS with state-hash pruning ranked by remaining depth. Non-trivial: sequences that reconcile revision B or inject a fault.",
		[]string{"simkube models the API server incl. dry-run and an admission predicate that answers identically for dry-run and real writes", "establisher concurrency 1 (its workers run one at a time); crash outcomes are not injected because the establisher issues calls from worker goroutines", "the Kubernetes garbage collector is modelled as 'delete objects all of whose owners are gone', run to a fixpoint as one event"},
		[]string{"simkube", "go-containerregistry (real image construction)", "afero in-memory filesystem for the package cache"},
	)
	depth := 5
	variants := []string{"upgrade", "conflict-q", "rejected", "rejected-existing", "foreign", "uncontrolled", "b-inactive-owner", "twin-names"}
	if report.Thorough() {
		depth = 7
	}
	rep.Bound("depth", depth)
	rep.Bound("max_faults", 1)
	var scs []report.Scenario
	for _, v := range variants {
		v := v
		scs = append(scs, report.Scenario{Name: v, Bound: 1, Prune: true, Wrap: report.Bubble(t), Body: func(r *explore.Run) { body(r, rep, v, v, depth) }})
	}
	rep.SelfCheck(t, scs[0], nil)
	rep.RunScenarios(t, scs)
	rep.Write(t)
}
