// C08: teardown happens in dependency order; nothing is orphaned with a dead
// controller. Four closed sub-systems are searched exhaustively (depth-bounded
// DFS with state-hash pruning) over user deletions, full reconciles of every
// controller on every object (an API fault or crash at any call), garbage
// collector steps and finalizer removals by third parties, with trace monitors
// evaluated at every write.
package c08

import (
	"context"
	"fmt"
	"os"
	"strings"
	"testing"
	"time"

	regv1 "github.com/google/go-containerregistry/pkg/v1"
	"github.com/spf13/afero"
	corev1 "k8s.io/api/core/v1"
	metav1 "k8s.io/apimachinery/pkg/apis/meta/v1"
	"k8s.io/apimachinery/pkg/apis/meta/v1/unstructured"
	"k8s.io/apimachinery/pkg/runtime/schema"
	"k8s.io/apimachinery/pkg/types"
	"k8s.io/utils/ptr"
	"sigs.k8s.io/controller-runtime/pkg/client"
	"sigs.k8s.io/controller-runtime/pkg/reconcile"

	xpv1 "github.com/crossplane/crossplane-runtime/apis/common/v1"
	"github.com/crossplane/crossplane-runtime/pkg/controller"
	"github.com/crossplane/crossplane-runtime/pkg/feature"
	"github.com/crossplane/crossplane-runtime/pkg/logging"
	"github.com/crossplane/crossplane-runtime/pkg/resource"
	"github.com/crossplane/crossplane-runtime/pkg/resource/unstructured/reference"

	fnv1 "github.com/crossplane/crossplane/apis/apiextensions/fn/proto/v1"
	_ "github.com/crossplane/crossplane/apis/apiextensions/v1"
	"github.com/crossplane/crossplane/apis/apiextensions/v1beta1"
	pkgv1 "github.com/crossplane/crossplane/apis/pkg/v1"
	pkgv1beta1 "github.com/crossplane/crossplane/apis/pkg/v1beta1"
	apiextensionscontroller "github.com/crossplane/crossplane/internal/controller/apiextensions/controller"
	"github.com/crossplane/crossplane/internal/controller/apiextensions/definition"
	"github.com/crossplane/crossplane/internal/controller/apiextensions/offered"
	usagectrl "github.com/crossplane/crossplane/internal/controller/apiextensions/usage"
	"github.com/crossplane/crossplane/internal/engine"
	"github.com/crossplane/crossplane/verif/engh"
	"github.com/crossplane/crossplane/verif/explore"
	"github.com/crossplane/crossplane/verif/pkgh"
	"github.com/crossplane/crossplane/verif/report"
	"github.com/crossplane/crossplane/verif/simkube"
	"github.com/crossplane/crossplane/verif/xrh"
)

var ctxBG = context.Background()

type fsInfo = os.FileInfo

func noResources(_ context.Context, _ string, req *fnv1.RunFunctionRequest) (*fnv1.RunFunctionResponse, error) {
	return &fnv1.RunFunctionResponse{Desired: &fnv1.State{}, Context: req.GetContext()}, nil
}

func hasFinalizer(u *unstructured.Unstructured, f string) bool {
	if u == nil {
		return false
	}
	for _, x := range u.GetFinalizers() {
		if x == f {
			return true
		}
	}
	return false
}

// finalizerRemoved reports whether the write removed finalizer f from the
// object (or removed the object while it still carried f).
func finalizerRemoved(rec *simkube.WriteRecord, f string) bool {
	if rec.Before == nil || !hasFinalizer(rec.Before, f) {
		return false
	}
	return rec.After == nil || rec.Deleted || !hasFinalizer(rec.After, f)
}

func dropFinalizers(s *simkube.Store, k simkube.ObjKey, keep func(string) bool) {
	s.Mutate(k, func(u *unstructured.Unstructured) {
		var out []string
		for _, f := range u.GetFinalizers() {
			if keep(f) {
				out = append(out, f)
			}
		}
		u.SetFinalizers(out)
	})
}

// ---- H1: claim + XR --------------------------------------------------------------

const claimFinalizer = "finalizer.apiextensions.crossplane.io"

func h1(r *explore.Run, rep *report.R, sc string, depth int, foreground bool, ssa bool) {
	h1v(r, rep, sc, depth, foreground, ssa, false)
}

// h1v: with olderVersionRef the claim was bound while the XRD's referenceable
// version was an older one: the XR's claimRef records that apiVersion, the
// claim is now served (and references itself) at the newer one.
func h1v(r *explore.Run, rep *report.R, sc string, depth int, foreground bool, ssa bool, olderVersionRef bool) {
	xrh.BeginExecution(1)
	s := xrh.NewStore()
	xrd := xrh.XRD()
	s.Seed(xrd)
	xrh.SeedComposition(s, xrh.PipelineComposition("comp", "noop"))
	cm := xrh.Claim("ns", "c1")
	_ = unstructured.SetNestedField(cm.Object, "comp", "spec", "compositionRef", "name")
	if foreground {
		p := xpv1.CompositeDeleteForeground
		cm.SetCompositeDeletePolicy(&p)
	}
	s.Seed(cm)
	inj := &xrh.FaultInjector{Run: r}
	s.Inj = inj
	mkClaim := func() reconcile.Reconciler { return xrh.NewClaimReconciler(xrd, s.Client("claim"), ssa) }
	crec := mkClaim()
	xrec := xrh.NewXRReconciler(xrd, xrh.XROptions{Cached: s.Client("xr"), Runner: xrh.FunctionRunner(noResources)})
	nn := types.NamespacedName{Namespace: "ns", Name: "c1"}
	// Prepared: bound and reconciled.
	for i := 0; i < 4; i++ {
		xrh.Reconcile(crec, nn)
		for _, x := range s.All(xrh.XRGVK.GroupKind()) {
			xrh.Reconcile(xrec, types.NamespacedName{Name: x.GetName()})
		}
	}
	xrs := s.All(xrh.XRGVK.GroupKind())
	if len(xrs) != 1 {
		panic(explore.HarnessError{Msg: "H1 preparation: claim not bound"})
	}
	xrKey := simkube.KeyOf(xrs[0])
	if olderVersionRef {
		s.Mutate(xrKey, func(u *unstructured.Unstructured) {
			_ = unstructured.SetNestedField(u.Object, xrh.ClaimGVK.Group+"/v1alpha1", "spec", "claimRef", "apiVersion")
		})
	}
	// A dependent of the XR that blocks foreground deletion until collected.
	dep := &unstructured.Unstructured{}
	dep.SetGroupVersionKind(xrh.ResA)
	dep.SetName("dep")
	dep.SetOwnerReferences([]metav1.OwnerReference{{APIVersion: xrs[0].GetAPIVersion(), Kind: xrs[0].GetKind(), Name: xrs[0].GetName(), UID: xrs[0].GetUID(), Controller: ptr.To(true), BlockOwnerDeletion: ptr.To(true)}})
	dep.SetFinalizers([]string{"example.org/provider"})
	s.Seed(dep)
	xrDeleteIssued := false
	s.OnWrite = append(s.OnWrite, func(rec *simkube.WriteRecord) {
		if rec.Call.Key == xrKey && rec.Call.Verb == "delete" && rec.Call.Client == "claim" {
			xrDeleteIssued = true
		}
		if rec.Call.Key == xrh.ClaimKey("ns", "c1") && finalizerRemoved(rec, claimFinalizer) {
			xr := s.Peek(xrKey)
			if xr != nil && xr.GetDeletionTimestamp() == nil {
				r.FailLater("claim/finalized-before-xr-deleted", "%s removed the claim's finalizer while its XR %s exists and is not being deleted", rec.Call, xrKey.Name)
			}
			if foreground && xr != nil {
				r.FailLater("claim/finalized-before-xr-gone/foreground", "%s removed the claim's finalizer while its XR %s still exists (Foreground policy)", rec.Call, xrKey.Name)
			}
		}
	})
	events := []string{"claim-reconcile", "xr-reconcile", "user-deletes-claim", "gc-step", "provider-finalizes-dependent", "user-deletes-xr"}
	var trail []string
	for step := 0; step < depth; step++ {
		r.SeenRank(report.Hash(s.Canonical(), xrDeleteIssued), depth-step)
		ev := events[r.Free(len(events), fmt.Sprintf("ev%d", step))]
		trail = append(trail, ev)
		switch ev {
		case "claim-reconcile":
			inj.Armed = true
			out := xrh.Reconcile(crec, nn)
			inj.Armed = false
			if out.Crashed != nil {
				crec = mkClaim()
			}
		case "xr-reconcile":
			xrh.Reconcile(xrec, types.NamespacedName{Name: xrKey.Name})
		case "user-deletes-claim":
			_ = s.Client("user").Delete(ctxBG, xrh.Claim("ns", "c1"))
		case "user-deletes-xr":
			if x := s.Peek(xrKey); x != nil {
				_ = s.Client("user").Delete(ctxBG, x)
			}
		case "gc-step":
			if as := s.GCActions(); len(as) > 0 {
				s.GCApply(as[r.Free(len(as), fmt.Sprintf("gc%d", step))])
			}
		case "provider-finalizes-dependent":
			dropFinalizers(s, simkube.KeyOf(dep), func(string) bool { return false })
		}
		r.Raise()
		r.Logf("step %d: %s -> claim=%v xr=%v", step, ev, describeObj(s.Peek(xrh.ClaimKey("ns", "c1"))), describeObj(s.Peek(xrKey)))
	}
	finish(r, rep, sc, trail, inj.Taken, s)
}

// h1fresh: H1 from a claim that has never been reconciled: its first sync
// (with a fault or crash at any call) may or may not have created an XR when
// the user deletes the claim. Whatever XR names the claim must be deleted (or
// gone) before the claim's finalizer goes.
func h1fresh(r *explore.Run, rep *report.R, sc string, depth int, ssa bool) {
	xrh.BeginExecution(1)
	s := xrh.NewStore()
	xrd := xrh.XRD()
	s.Seed(xrd)
	xrh.SeedComposition(s, xrh.PipelineComposition("comp", "noop"))
	cm := xrh.Claim("ns", "c1")
	_ = unstructured.SetNestedField(cm.Object, "comp", "spec", "compositionRef", "name")
	s.Seed(cm)
	inj := &xrh.FaultInjector{Run: r}
	s.Inj = inj
	mkClaim := func() reconcile.Reconciler { return xrh.NewClaimReconciler(xrd, s.Client("claim"), ssa) }
	crec := mkClaim()
	xrec := xrh.NewXRReconciler(xrd, xrh.XROptions{Cached: s.Client("xr"), Runner: xrh.FunctionRunner(noResources)})
	nn := types.NamespacedName{Namespace: "ns", Name: "c1"}
	s.OnWrite = append(s.OnWrite, func(rec *simkube.WriteRecord) {
		if rec.Call.Key == xrh.ClaimKey("ns", "c1") && finalizerRemoved(rec, claimFinalizer) {
			for _, x := range s.All(xrh.XRGVK.GroupKind()) {
				n, _, _ := unstructured.NestedString(x.Object, "spec", "claimRef", "name")
				if n == "c1" && x.GetDeletionTimestamp() == nil {
					r.FailLater("claim/finalized-before-xr-deleted", "%s removed the claim's finalizer while XR %s, created for this claim, exists and is not being deleted", rec.Call, x.GetName())
				}
			}
		}
	})
	events := []string{"claim-reconcile", "xr-reconcile", "user-deletes-claim", "gc-step"}
	var trail []string
	for step := 0; step < depth; step++ {
		r.SeenRank(report.Hash(s.Canonical()), depth-step)
		ev := events[r.Free(len(events), fmt.Sprintf("ev%d", step))]
		trail = append(trail, ev)
		switch ev {
		case "claim-reconcile":
			inj.Armed = true
			out := xrh.Reconcile(crec, nn)
			inj.Armed = false
			if out.Crashed != nil {
				crec = mkClaim()
			}
		case "xr-reconcile":
			for _, x := range s.All(xrh.XRGVK.GroupKind()) {
				xrh.Reconcile(xrec, types.NamespacedName{Name: x.GetName()})
			}
		case "user-deletes-claim":
			_ = s.Client("user").Delete(ctxBG, xrh.Claim("ns", "c1"))
		case "gc-step":
			if as := s.GCActions(); len(as) > 0 {
				s.GCApply(as[r.Free(len(as), fmt.Sprintf("gc%d", step))])
			}
		}
		r.Raise()
		r.Logf("step %d: %s -> claim=%v xrs=%d", step, ev, describeObj(s.Peek(xrh.ClaimKey("ns", "c1"))), len(s.All(xrh.XRGVK.GroupKind())))
	}
	finish(r, rep, sc, trail, inj.Taken, s)
}

func describeObj(u *unstructured.Unstructured) string {
	if u == nil {
		return "absent"
	}
	d := "live"
	if u.GetDeletionTimestamp() != nil {
		d = "terminating"
	}
	return fmt.Sprintf("%s%v", d, u.GetFinalizers())
}

func finish(r *explore.Run, rep *report.R, sc string, trail, faults []string, s *simkube.Store) {
	nt := ""
	if strings.Contains(strings.Join(trail, ","), "deletes") {
		nt = report.Hash(sc, trail, faults)
	}
	rep.Eval(sc, report.Hash(sc, s.Canonical()), nt)
	if rep.WantSample() && len(faults) > 0 && nt != "" {
		rep.Sample(map[string]any{"scenario": sc, "events": trail, "faults": faults})
	}
}

// ---- H2: XRD, CRDs, dynamic controllers ----------------------------------------------

// h2Engine is the real ControllerEngine (over harness informers and
// controllers, package engh) as the XRD reconcilers see it. The periodic
// watch collector the definition reconciler asks for is replaced by a no-op:
// its ticker is irrelevant to teardown.
type h2Engine struct {
	*engh.Engine
}

type nopCollector struct{}

func (nopCollector) GarbageCollectWatches(context.Context, time.Duration) {}

func (e *h2Engine) Start(name string, o ...engine.ControllerOption) error {
	return e.Engine.Start(name, append(o, engine.WithWatchGarbageCollector(nopCollector{}))...)
}

// running: the engine says so, or a controller of that name is in fact still
// alive (started, context not cancelled).
func (e *h2Engine) running(name string) bool { return e.IsRunning(name) || e.Live(name) > 0 }

func (e *h2Engine) state(names ...string) string {
	out := ""
	for _, n := range names {
		out += fmt.Sprintf("%s:%v/%d ", n, e.IsRunning(n), e.Live(n))
	}
	return out
}

// h2Cleanup releases what the current H2 execution left running (also when
// the execution is cut short).
var h2Cleanup func()

var crdGK = schema.GroupKind{Group: "apiextensions.k8s.io", Kind: "CustomResourceDefinition"}

func h2(r *explore.Run, rep *report.R, sc string, depth int, foreignCRD bool, start string) {
	xrh.BeginExecution(1)
	s := xrh.NewStore()
	xrd := xrh.XRD()
	s.Seed(xrd)
	xrdKey := simkube.ObjKey{Group: "apiextensions.crossplane.io", Kind: "CompositeResourceDefinition", Name: xrd.GetName()}
	xrh.SeedComposition(s, xrh.PipelineComposition("comp", "noop"))
	xrCRDName, claimCRDName := "xthings."+xrh.Group, "things."+xrh.Group
	ctrlOf := map[string]string{xrCRDName: "composite/" + xrd.GetName(), claimCRDName: "claim/" + xrd.GetName()}
	kindOf := map[string]schema.GroupKind{xrCRDName: xrh.XRGVK.GroupKind(), claimCRDName: xrh.ClaimGVK.GroupKind()}
	c := s.Client("xrd")
	eng := &h2Engine{Engine: engh.New(xrh.Scheme, c, c)}
	eng.Sync = report.Settle
	h2Cleanup = eng.Shutdown
	defer func() { eng.Shutdown(); h2Cleanup = nil }()
	ctrlNames := []string{"composite/" + xrd.GetName(), "claim/" + xrd.GetName()}
	ca := resource.ClientApplicator{Client: c, Applicator: resource.NewAPIUpdatingApplicator(c)}
	o := apiextensionscontroller.Options{Options: controller.Options{Logger: logging.NewNopLogger(), Features: &feature.Flags{}}}
	drec := definition.NewReconciler(ca, definition.WithControllerEngine(eng), definition.WithOptions(o))
	orec := offered.NewReconciler(ca, offered.WithControllerEngine(eng), offered.WithOptions(o))
	// The API server establishes CRDs. A CRD whose deletion is requested gets
	// the customresourcecleanup finalizer and stays (terminating) until the
	// API server's CRD finalizer has deleted every instance and seen them go
	// (event "crd-cleanup"); then the kind is no longer served.
	const cleanupFinalizer = "customresourcecleanup.apiextensions.k8s.io"
	s.DeleteFinalizers[crdGK] = []string{cleanupFinalizer}
	s.OnWrite = append(s.OnWrite, func(rec *simkube.WriteRecord) {
		if rec.Call.Key.GK() != crdGK {
			return
		}
		gk, ours := kindOf[rec.Call.Key.Name]
		if !ours {
			return
		}
		requested := rec.Deleted || (rec.Before != nil && rec.Before.GetDeletionTimestamp() == nil && rec.After != nil && rec.After.GetDeletionTimestamp() != nil)
		// The property speaks about the teardown of a deleted XRD. (While the
		// XRD lives, a CRD someone else deleted is simply re-applied by the
		// definition controller; that is not this property's subject.)
		xo := s.Peek(xrdKey)
		xrdDeleting := xo == nil || xo.GetDeletionTimestamp() != nil
		if requested && rec.Call.Client == "xrd" && xrdDeleting {
			// Monitors for the CRD deletion by the XRD controllers.
			if n := len(s.All(gk)); n > 0 {
				r.FailLater("crd/deleted-with-instances/"+gk.Kind, "%s deleted the CRD while %d instance(s) of %s exist", rec.Call, n, gk.Kind)
			}
			if eng.running(ctrlOf[rec.Call.Key.Name]) {
				r.FailLater("crd/deleted-before-controller-stopped/"+gk.Kind, "%s deleted the CRD while controller %s is still running", rec.Call, ctrlOf[rec.Call.Key.Name])
			}
		}
		if rec.Deleted {
			s.NoMatch[gk] = true
			for _, inst := range s.All(gk) {
				s.Remove(simkube.KeyOf(inst))
			}
		}
	})
	// crdCleanup is one pass of the API server's CRD finalizer over the
	// terminating CRDs: delete the instances (their finalizers are honoured);
	// once none is left, release the CRD.
	crdCleanup := func() {
		for _, n := range []string{xrCRDName, claimCRDName} {
			k := simkube.ObjKey{Group: crdGK.Group, Kind: crdGK.Kind, Name: n}
			crd := s.Peek(k)
			if crd == nil || crd.GetDeletionTimestamp() == nil || !hasFinalizer(crd, cleanupFinalizer) {
				continue
			}
			gk := kindOf[n]
			for _, inst := range s.All(gk) {
				_ = s.Client("apiserver").Delete(ctxBG, inst)
			}
			if len(s.All(gk)) > 0 {
				continue
			}
			dropFinalizers(s, k, func(f string) bool { return f != cleanupFinalizer })
			if s.Peek(k) == nil {
				s.NoMatch[gk] = true
			}
		}
	}
	establish := func() {
		for n := range kindOf {
			k := simkube.ObjKey{Group: crdGK.Group, Kind: crdGK.Kind, Name: n}
			s.Mutate(k, func(u *unstructured.Unstructured) {
				_ = unstructured.SetNestedSlice(u.Object, []any{map[string]any{"type": "Established", "status": "True"}}, "status", "conditions")
			})
		}
	}
	nnXRD := types.NamespacedName{Name: xrd.GetName()}
	if foreignCRD {
		// The composite CRD exists but was never ours.
		xc, _ := xrh.CRDs(xrd)
		xc.TypeMeta = metav1.TypeMeta{APIVersion: "apiextensions.k8s.io/v1", Kind: "CustomResourceDefinition"}
		xc.OwnerReferences = []metav1.OwnerReference{{APIVersion: "v1", Kind: "ConfigMap", Name: "someone", UID: "foreign-uid", Controller: ptr.To(true)}}
		s.Seed(xc)
	}
	for i := 0; i < 3; i++ {
		xrh.Reconcile(drec, nnXRD)
		xrh.Reconcile(orec, nnXRD)
		establish()
	}
	if !foreignCRD && (!eng.running(ctrlOf[xrCRDName]) || !eng.running(ctrlOf[claimCRDName])) {
		panic(explore.HarnessError{Msg: fmt.Sprintf("H2 preparation: controllers not started: %v", eng.state(ctrlNames...))})
	}
	// One claim bound to one XR, both reconciled by their (dynamic) controllers.
	cm := xrh.Claim("ns", "c1")
	_ = unstructured.SetNestedField(cm.Object, "comp", "spec", "compositionRef", "name")
	s.Seed(cm)
	crec := xrh.NewClaimReconciler(xrd, s.Client("claim"), false)
	xrec := xrh.NewXRReconciler(xrd, xrh.XROptions{Cached: s.Client("xr"), Runner: xrh.FunctionRunner(noResources)})
	nnClaim := types.NamespacedName{Namespace: "ns", Name: "c1"}
	for i := 0; i < 3; i++ {
		xrh.Reconcile(crec, nnClaim)
		for _, x := range s.All(xrh.XRGVK.GroupKind()) {
			xrh.Reconcile(xrec, types.NamespacedName{Name: x.GetName()})
		}
	}
	onStop := func(name string) {
		for crdName, cn := range ctrlOf {
			if cn != name {
				continue
			}
			crd := s.Peek(simkube.ObjKey{Group: crdGK.Group, Kind: crdGK.Kind, Name: crdName})
			ours := false
			if crd != nil {
				if ctl := metav1.GetControllerOf(crd); ctl != nil && ctl.UID == xrd.GetUID() {
					ours = true
				}
			}
			if n := len(s.All(kindOf[crdName])); ours && n > 0 {
				r.FailLater("controller/stopped-with-instances/"+kindOf[crdName].Kind, "controller %s was stopped while %d instance(s) of %s exist", name, n, kindOf[crdName].Kind)
			}
		}
	}
	eng.OnStop = onStop
	s.OnWrite = append(s.OnWrite, func(rec *simkube.WriteRecord) {
		if rec.Call.Key != xrdKey {
			return
		}
		for _, f := range []struct{ fin, crd string }{{"defined.apiextensions.crossplane.io", xrCRDName}, {"offered.apiextensions.crossplane.io", claimCRDName}} {
			if finalizerRemoved(rec, f.fin) {
				crd := s.Peek(simkube.ObjKey{Group: crdGK.Group, Kind: crdGK.Kind, Name: f.crd})
				if crd != nil {
					if ctl := metav1.GetControllerOf(crd); ctl != nil && ctl.UID == xrd.GetUID() {
						r.FailLater("xrd/finalized-with-crd/"+f.crd, "%s removed the XRD finalizer %s while the CRD %s it controls still exists", rec.Call, f.fin, f.crd)
					}
				}
			}
		}
	})
	// Non-initial start states, reached fault free with the real code.
	switch start {
	case "xrd-deleting":
		_ = s.Client("user").Delete(ctxBG, xrd.DeepCopy())
		xrh.Reconcile(drec, nnXRD)
		xrh.Reconcile(orec, nnXRD)
		r.Raise()
	case "xr-half-initialised":
		// A second XR whose first reconcile was cut short right after its
		// finalizer was persisted: it has the finalizer but none of the
		// labels and references a completed reconcile gives it.
		x2 := xrh.XR("x-new", "comp")
		x2.SetFinalizers([]string{"composite.apiextensions.crossplane.io"})
		x2.SetLabels(nil)
		s.Seed(x2)
	case "composite-crd-deleting":
		if crd := s.Peek(simkube.ObjKey{Group: crdGK.Group, Kind: crdGK.Kind, Name: xrCRDName}); crd != nil {
			_ = s.Client("user").Delete(ctxBG, crd)
		}
		crdCleanup()
	}
	inj := &xrh.FaultInjector{Run: r, Filter: func(c simkube.Call) bool { return c.Client == "xrd" }}
	s.Inj = inj
	// An informer lookup of the engine (starting or stopping a watch) may
	// fail, like an API call: one more kind of costed deviation.
	failLookup := func(gvk schema.GroupVersionKind) bool {
		if !inj.Armed {
			return false
		}
		if r.Choose(2, "informer-lookup:"+gvk.Kind) == 1 {
			inj.Taken = append(inj.Taken, "informer lookup of "+gvk.Kind+" fails")
			return true
		}
		return false
	}
	eng.Cache.Fail = failLookup
	// restart: the Crossplane pod is replaced. Which controllers run is
	// in-memory state of the engine: the new process starts with none, and
	// with fresh reconcilers.
	restart := func() {
		eng.Shutdown()
		ne := &h2Engine{Engine: engh.New(xrh.Scheme, c, c)}
		ne.Sync, ne.OnStop, ne.Cache.Fail = report.Settle, onStop, failLookup
		*eng = *ne
		h2Cleanup = eng.Shutdown
		drec = definition.NewReconciler(ca, definition.WithControllerEngine(eng), definition.WithOptions(o))
		orec = offered.NewReconciler(ca, offered.WithControllerEngine(eng), offered.WithOptions(o))
	}
	events := []string{"definition-reconcile", "offered-reconcile", "xr-reconcile", "claim-reconcile", "user-deletes-xrd", "user-deletes-claim", "gc-step", "crd-cleanup", "third-party-deletes-composite-crd", "crossplane-restarts"}
	var trail []string
	for step := 0; step < depth; step++ {
		r.SeenRank(report.Hash(s.Canonical(), eng.state(ctrlNames...), s.NoMatch), depth-step)
		ev := events[r.Free(len(events), fmt.Sprintf("ev%d", step))]
		trail = append(trail, ev)
		switch ev {
		case "definition-reconcile", "offered-reconcile":
			rec := reconcile.Reconciler(drec)
			if ev == "offered-reconcile" {
				rec = orec
			}
			inj.Armed = true
			out := xrh.Reconcile(rec, nnXRD)
			inj.Armed = false
			_ = out
			establish()
		case "xr-reconcile":
			// Only a running controller reconciles its instances.
			if eng.running(ctrlOf[xrCRDName]) && !s.NoMatch[xrh.XRGVK.GroupKind()] {
				xs := s.All(xrh.XRGVK.GroupKind())
				// With several instances the controller gets to them one at
				// a time, in any order: all of them, or only one, now.
				only := 0
				if len(xs) > 1 {
					only = r.Free(len(xs)+1, fmt.Sprintf("xr-reconcile-which%d(all,one...)", step))
				}
				for i, x := range xs {
					if only == 0 || only == i+1 {
						xrh.Reconcile(xrec, types.NamespacedName{Name: x.GetName()})
					}
				}
			}
		case "claim-reconcile":
			if eng.running(ctrlOf[claimCRDName]) && !s.NoMatch[xrh.ClaimGVK.GroupKind()] {
				xrh.Reconcile(crec, nnClaim)
			}
		case "user-deletes-xrd":
			_ = s.Client("user").Delete(ctxBG, xrd.DeepCopy())
		case "crd-cleanup":
			crdCleanup()
		case "crossplane-restarts":
			restart()
		case "third-party-deletes-composite-crd":
			if crd := s.Peek(simkube.ObjKey{Group: crdGK.Group, Kind: crdGK.Kind, Name: xrCRDName}); crd != nil {
				_ = s.Client("user").Delete(ctxBG, crd)
			}
		case "user-deletes-claim":
			if !s.NoMatch[xrh.ClaimGVK.GroupKind()] {
				_ = s.Client("user").Delete(ctxBG, xrh.Claim("ns", "c1"))
			}
		case "gc-step":
			if as := s.GCActions(); len(as) > 0 {
				s.GCApply(as[r.Free(len(as), fmt.Sprintf("gc%d", step))])
			}
		}
		r.Raise()
		r.Logf("step %d: %s -> xrd=%s running=%v xrs=%d claims=%d", step, ev, describeObj(s.Peek(xrdKey)), eng.state(ctrlNames...), len(s.All(xrh.XRGVK.GroupKind())), len(s.All(xrh.ClaimGVK.GroupKind())))
	}
	finish(r, rep, sc, trail, inj.Taken, s)
}

// ---- H3: package revision + Lock ----------------------------------------------------

func h3(r *explore.Run, rep *report.R, sc string, depth int) {
	xrh.BeginExecution(1)
	s := xrh.NewStore()
	img := pkgh.BuildImage(pkgh.Stream(pkgh.MetaYAML("Configuration", "c", ""), pkgh.XRDYAML("ex.org", "XA")), pkgh.AnnotatedBase, nil)
	reg := &pkgh.Registry{Table: map[string]string{"acme/c:v1": "A"}, Images: map[string]regv1.Image{"A": img}}
	rev := &pkgv1.ConfigurationRevision{TypeMeta: metav1.TypeMeta{APIVersion: pkgv1.SchemeGroupVersion.String(), Kind: pkgv1.ConfigurationRevisionKind}, ObjectMeta: metav1.ObjectMeta{Name: "c-rev1", Labels: map[string]string{pkgv1.LabelParentPackage: "c"}, OwnerReferences: []metav1.OwnerReference{{APIVersion: pkgv1.SchemeGroupVersion.String(), Kind: pkgv1.ConfigurationKind, Name: "c", UID: "cfg-uid", Controller: ptr.To(true)}}}}
	rev.Spec.Package = "acme/c:v1"
	rev.Spec.DesiredState = pkgv1.PackageRevisionActive
	rev.Spec.Revision = 1
	rev.Spec.SkipDependencyResolution = ptr.To(false)
	s.Seed(rev)
	revKey := simkube.ObjKey{Group: "pkg.crossplane.io", Kind: "ConfigurationRevision", Name: "c-rev1"}
	lockKey := simkube.ObjKey{Group: "pkg.crossplane.io", Kind: "Lock", Name: "lock"}
	fs := afero.NewMemMapFs()
	mk := func() reconcile.Reconciler {
		return pkgh.NewRevisionReconciler(pkgh.RevisionOptions{Kind: "Configuration", Client: s.Client("rev"), Registry: reg, Fs: fs})
	}
	rec := mk()
	nn := types.NamespacedName{Name: "c-rev1"}
	for i := 0; i < 3; i++ {
		xrh.Reconcile(rec, nn)
	}
	inLock := func() bool {
		l := &pkgv1beta1.Lock{}
		if !s.PeekInto(lockKey, l) {
			return false
		}
		for _, p := range l.Packages {
			if p.Name == "c-rev1" {
				return true
			}
		}
		return false
	}
	if !inLock() {
		panic(explore.HarnessError{Msg: "H3 preparation: revision not in the Lock"})
	}
	s.OnWrite = append(s.OnWrite, func(w *simkube.WriteRecord) {
		if w.Call.Key == revKey && finalizerRemoved(w, "revision.pkg.crossplane.io") && inLock() {
			r.FailLater("revision/finalized-while-in-lock", "%s removed the revision's finalizer while the revision is still in the dependency Lock", w.Call)
		}
	})
	inj := &xrh.FaultInjector{Run: r, NoCrash: true}
	s.Inj = inj
	events := []string{"revision-reconcile", "user-deletes-revision", "deactivate-revision", "gc-step"}
	var trail []string
	for step := 0; step < depth; step++ {
		var files []string
		_ = afero.Walk(fs, "/", func(p string, _ fsInfo, _ error) error { files = append(files, p); return nil })
		r.SeenRank(report.Hash(s.Canonical(), files), depth-step)
		ev := events[r.Free(len(events), fmt.Sprintf("ev%d", step))]
		trail = append(trail, ev)
		switch ev {
		case "revision-reconcile":
			inj.Armed = true
			out := xrh.Reconcile(rec, nn)
			inj.Armed = false
			if out.Crashed != nil {
				rec = mk()
			}
		case "user-deletes-revision":
			_ = s.Client("user").Delete(ctxBG, rev.DeepCopy())
		case "deactivate-revision":
			s.Mutate(revKey, func(u *unstructured.Unstructured) {
				_ = unstructured.SetNestedField(u.Object, string(pkgv1.PackageRevisionInactive), "spec", "desiredState")
			})
		case "gc-step":
			if as := s.GCActions(); len(as) > 0 {
				s.GCApply(as[r.Free(len(as), fmt.Sprintf("gc%d", step))])
			}
		}
		r.Raise()
		r.Logf("step %d: %s -> revision=%s inLock=%v", step, ev, describeObj(s.Peek(revKey)), inLock())
	}
	finish(r, rep, sc, trail, inj.Taken, s)
}

// ---- H4: composed Usage -------------------------------------------------------------

func h4(r *explore.Run, rep *report.R, sc string, depth int) {
	xrh.BeginExecution(1)
	s := xrh.NewStore()
	mgr := &pkgh.Mgr{C: s.Client("usage")}
	// The usage reconciler lists Usages through the in-use index.
	usedGK := schema.GroupKind{Group: "res.example.org", Kind: "Used"}
	userGK := schema.GroupKind{Group: "res.example.org", Kind: "User"}
	_ = s.Client("idx").IndexField(ctxBG, &v1beta1.Usage{}, "inuse.apiversion.kind.name", func(o client.Object) []string {
		u := o.(*v1beta1.Usage)
		if u.Spec.Of.ResourceRef == nil {
			return nil
		}
		return []string{fmt.Sprintf("%s.%s.%s", usedGK.Group, u.Spec.Of.Kind, u.Spec.Of.ResourceRef.Name)}
	})
	mkObj := func(gk schema.GroupKind, name string) *unstructured.Unstructured {
		u := &unstructured.Unstructured{}
		u.SetGroupVersionKind(gk.WithVersion("v1"))
		u.SetName(name)
		return u
	}
	s.Seed(mkObj(usedGK, "db"), mkObj(userGK, "app"))
	userKey := simkube.ObjKey{Group: userGK.Group, Kind: userGK.Kind, Name: "app"}
	u := &v1beta1.Usage{TypeMeta: metav1.TypeMeta{APIVersion: v1beta1.SchemeGroupVersion.String(), Kind: v1beta1.UsageKind}, ObjectMeta: metav1.ObjectMeta{Name: "u", Labels: map[string]string{"crossplane.io/composite": "xr1"}}}
	u.Spec.Of = v1beta1.Resource{APIVersion: usedGK.Group + "/v1", Kind: usedGK.Kind, ResourceRef: &v1beta1.ResourceRef{Name: "db"}}
	u.Spec.By = &v1beta1.Resource{APIVersion: userGK.Group + "/v1", Kind: userGK.Kind, ResourceRef: &v1beta1.ResourceRef{Name: "app"}}
	s.Seed(u)
	usageKey := simkube.ObjKey{Group: "apiextensions.crossplane.io", Kind: "Usage", Name: "u"}
	mk := func() reconcile.Reconciler { return usagectrl.NewReconciler(mgr) }
	rec := mk()
	nn := types.NamespacedName{Name: "u"}
	for i := 0; i < 3; i++ {
		xrh.Reconcile(rec, nn)
	}
	s.OnWrite = append(s.OnWrite, func(w *simkube.WriteRecord) {
		if w.Call.Key == usageKey && finalizerRemoved(w, "usage.apiextensions.crossplane.io") && s.Peek(userKey) != nil {
			r.FailLater("usage/finalized-while-using-resource-exists", "%s removed the composed Usage's finalizer while its using resource still exists", w.Call)
		}
	})
	inj := &xrh.FaultInjector{Run: r}
	s.Inj = inj
	events := []string{"usage-reconcile", "delete-usage", "delete-using", "gc-step", "delete-used"}
	var trail []string
	for step := 0; step < depth; step++ {
		r.SeenRank(report.Hash(s.Canonical()), depth-step)
		ev := events[r.Free(len(events), fmt.Sprintf("ev%d", step))]
		trail = append(trail, ev)
		switch ev {
		case "usage-reconcile":
			inj.Armed = true
			out := xrh.Reconcile(rec, nn)
			inj.Armed = false
			if out.Crashed != nil {
				rec = mk()
			}
		case "delete-usage":
			_ = s.Client("user").Delete(ctxBG, u.DeepCopy())
		case "delete-using":
			_ = s.Client("user").Delete(ctxBG, mkObj(userGK, "app"))
		case "delete-used":
			_ = s.Client("user").Delete(ctxBG, mkObj(usedGK, "db"))
		case "gc-step":
			if as := s.GCActions(); len(as) > 0 {
				s.GCApply(as[r.Free(len(as), fmt.Sprintf("gc%d", step))])
			}
		}
		r.Raise()
		r.Logf("step %d: %s -> usage=%s using=%s", step, ev, describeObj(s.Peek(usageKey)), describeObj(s.Peek(userKey)))
	}
	report.Settle()
	finish(r, rep, sc, trail, inj.Taken, s)
}

var _ = corev1.Secret{}
var _ = reference.Claim{}

func TestCheck(t *testing.T) {
	rep := report.New("C08", "model_checking")
	rep.Meta(
		"Four closed sub-systems, each searched by depth-bounded DFS with state-hash pruning over event sequences; every event is a transition executed by the real code. H1 (claim + XR + a dependent with a provider finalizer; Background and Foreground policy; both syncers; variant: the XR's claimRef still records an older API version of the claim): events {claim reconcile with an API fault or crash at any call, XR reconcile, user deletes the claim, user deletes the XR, one garbage-collector step (which one is a choice), the provider finalizes the dependent}. H2 (XRD with the real definition and offered reconcilers on the real ControllerEngine - over harness informers and controllers whose context tells whether they were stopped; an informer lookup of the engine may fail like an API call -, one bound claim + XR whose controllers only run while the engine says so; composite CRD ours or foreign): events {definition / offered reconcile with a fault at any call, XR / claim reconcile, user deletes the XRD / the claim, a third party deletes the composite CRD, gc step, crd-cleanup, Crossplane restarts (new engine with no controller running, new reconcilers)}; the API-server side establishes CRDs, and a CRD whose deletion was requested carries the customresourcecleanup finalizer and stays terminating until the crd-cleanup event (the API server's CRD finalizer: delete the instances, release the CRD once none is left) has seen every instance go; start states: steady, XRD deletion already requested and reconciled once, composite CRD deleted by a third party, a second XR whose first reconcile was cut short after its finalizer was written. H3 (package revision + dependency Lock, real revision reconciler and PackageDependencyManager): {reconcile with an API error at any call, user deletes the revision, deactivate, gc step}. H4 (composed Usage + using + used resource, real usage reconciler): {reconcile with fault/crash, delete usage / using / used, gc step}. Monitors at every write: claim finalizer removed only after an XR delete was issued (Foreground: XR gone); CRD deleted only with no instances and a stopped controller; controller stopped only with no instances (when the CRD is ours); XRD finalizers removed only when the CRD is gone or never ours; revision finalized only when out of the Lock; composed Usage finalized only when the using resource is gone.",
		[]string{"simkube models the API server; the Kubernetes garbage collector acts only through explicit gc-step events", "a dynamic controller reconciles its instances only while the (recording) engine reports it running", "reconciles are atomic events except for the one injected fault / crash"},
		[]string{"simkube", "real ControllerEngine over fake informers / controllers (package engh)"},
	)
	depth := 5
	if report.Thorough() {
		depth = 7
	}
	rep.Bound("depth", depth)
	rep.Bound("max_faults", 1)
	var scs []report.Scenario
	add := func(name string, body func(r *explore.Run)) {
		scs = append(scs, report.Scenario{Name: name, Bound: 1, Prune: true, Wrap: report.Bubble(t), Body: body})
	}
	for _, fg := range []bool{false, true} {
		for _, ssa := range []bool{false, true} {
			fg, ssa := fg, ssa
			name := fmt.Sprintf("H1/foreground=%v/ssa=%v", fg, ssa)
			add(name, func(r *explore.Run) { h1(r, rep, name, depth, fg, ssa) })
		}
	}
	for _, fg := range []bool{false, true} {
		fg := fg
		name := fmt.Sprintf("H1/foreground=%v/ssa=false/claimref-at-older-version", fg)
		add(name, func(r *explore.Run) { h1v(r, rep, name, depth, fg, false, true) })
	}
	for _, ssa := range []bool{false, true} {
		ssa := ssa
		name := fmt.Sprintf("H1/never-reconciled-claim/ssa=%v", ssa)
		add(name, func(r *explore.Run) { h1fresh(r, rep, name, depth, ssa) })
	}
	for _, foreign := range []bool{false, true} {
		foreign := foreign
		for _, start := range []string{"", "xrd-deleting", "composite-crd-deleting", "xr-half-initialised"} {
			start := start
			if start == "xr-half-initialised" && foreign {
				continue
			}
			name := fmt.Sprintf("H2/foreign-crd=%v", foreign)
			if start != "" {
				name += "/start=" + start
			}
			add(name, func(r *explore.Run) { h2(r, rep, name, depth, foreign, start) })
			scs[len(scs)-1].OnCut = func() {
				if h2Cleanup != nil {
					h2Cleanup()
				}
			}
		}
	}
	add("H3/revision-lock", func(r *explore.Run) { h3(r, rep, "H3/revision-lock", depth) })
	add("H4/composed-usage", func(r *explore.Run) { h4(r, rep, "H4/composed-usage", depth) })
	rep.SelfCheck(t, scs[0], nil)
	rep.RunScenarios(t, scs)
	rep.Write(t)
}
