// Package sched is the thread mode of the explorer: a cooperative scheduler
// for real goroutines running inside a testing/synctest bubble. Harness
// threads and the goroutines they spawn park at hooked operations (vsync lock
// acquisitions, explicit Points); the scheduler waits until every goroutine
// of the bubble is durably blocked (synctest.Wait), then releases exactly one
// parked operation chosen by the explorer. Switching away from a thread that
// could continue is a preemption (a costed deviation), so exploration is
// preemption-bounded.
package sched

import (
	"bytes"
	"fmt"
	"runtime"
	"sort"
	"strconv"
	"sync"
	"testing/synctest"
	"time"

	"github.com/crossplane/crossplane/internal/verifshim/vsync"
	"github.com/crossplane/crossplane/verif/explore"
)

type thread struct {
	id     int
	label  string
	wake   chan struct{}
	parked bool
	done   bool
	// pending operation
	lock   *vsync.State
	write  bool
	site   string
	spawn  int  // children spawned (for deterministic labels)
	helper bool // spawned by instrumented code, not by the harness
}

// S is a scheduler for one execution.
type S struct {
	r       *explore.Run
	mu      sync.Mutex
	byGoid  map[int64]*thread
	threads []*thread
	cur     *thread
	Steps   int
	// MaxSteps is the execution horizon (scheduling decisions).
	MaxSteps int
	// Clock lets sleeping goroutines run when nothing else can: the
	// scheduler advances virtual time by this much (0 = never).
	Clock     time.Duration
	lockNames map[*vsync.State]string
	aborted   bool
	// ReleasePoints makes lock releases scheduling points as well.
	ReleasePoints bool
	// Panics holds panics raised by threads (reported by the harness).
	Panics []string
}

// New creates a scheduler bound to a run and installs it as the vsync
// scheduler. Call Close when the execution ends.
func New(r *explore.Run) *S {
	s := &S{r: r, byGoid: map[int64]*thread{}, MaxSteps: 2000, lockNames: map[*vsync.State]string{}}
	vsync.S = s
	return s
}

// Close uninstalls the scheduler.
func (s *S) Close() { vsync.S = nil }

func goid() int64 {
	var buf [64]byte
	n := runtime.Stack(buf[:], false)
	// "goroutine 123 ["
	b := buf[len("goroutine "):n]
	i := bytes.IndexByte(b, ' ')
	id, _ := strconv.ParseInt(string(b[:i]), 10, 64)
	return id
}

func (s *S) self() *thread {
	g := goid()
	s.mu.Lock()
	defer s.mu.Unlock()
	t := s.byGoid[g]
	if t == nil {
		// A goroutine the harness did not start (library code): label it by
		// first-hook order.
		t = &thread{id: len(s.threads), label: fmt.Sprintf("anon%d", len(s.threads)), wake: make(chan struct{})}
		s.threads = append(s.threads, t)
		s.byGoid[g] = t
	}
	return t
}

func (s *S) register(label string, g int64) *thread {
	s.mu.Lock()
	defer s.mu.Unlock()
	t := &thread{id: len(s.threads), label: label, wake: make(chan struct{})}
	s.threads = append(s.threads, t)
	if g != 0 {
		s.byGoid[g] = t
	}
	return t
}

// Spawn starts a harness thread. It parks before running fn so that the
// scheduler controls when it starts.
func (s *S) Spawn(label string, fn func()) { s.spawn(label, fn, false) }

func (s *S) spawn(label string, fn func(), helper bool) {
	t := s.register(label, 0)
	t.helper = helper
	go func() {
		s.mu.Lock()
		s.byGoid[goid()] = t
		s.mu.Unlock()
		defer s.finish(t)
		defer func() {
			if p := recover(); p != nil {
				s.mu.Lock()
				s.Panics = append(s.Panics, fmt.Sprintf("%s: %v", t.label, p))
				s.mu.Unlock()
			}
		}()
		s.park(t, nil, false, "start")
		fn()
	}()
}

func (s *S) finish(t *thread) {
	s.mu.Lock()
	t.done = true
	s.mu.Unlock()
}

// Go implements vsync.Scheduler: a goroutine spawned by instrumented code.
func (s *S) Go(fn func()) {
	parent := s.self()
	s.mu.Lock()
	parent.spawn++
	label := fmt.Sprintf("%s/go%d", parent.label, parent.spawn)
	s.mu.Unlock()
	s.spawn(label, fn, true)
}

func (s *S) park(t *thread, l *vsync.State, write bool, site string) {
	s.mu.Lock()
	if s.aborted {
		s.mu.Unlock()
		runtime.Goexit()
	}
	t.lock, t.write, t.site, t.parked = l, write, site, true
	s.mu.Unlock()
	<-t.wake
	s.mu.Lock()
	ab := s.aborted
	s.mu.Unlock()
	if ab {
		// The execution was abandoned (deadlock or violation): unwind this
		// goroutine, running its deferred unlocks.
		runtime.Goexit()
	}
}

// Abort abandons the execution: every parked goroutine, and any goroutine
// that reaches a hook later, unwinds via runtime.Goexit.
func (s *S) Abort() {
	s.mu.Lock()
	if s.aborted {
		s.mu.Unlock()
		return
	}
	s.aborted = true
	ts := append([]*thread{}, s.threads...)
	s.mu.Unlock()
	for _, t := range ts {
		if t.parked && !t.done {
			t.parked = false
			close(t.wake)
		}
	}
	synctest.Wait()
}

func (s *S) fail(sig, format string, a ...any) {
	s.Abort()
	s.r.Failf(sig, format, a...)
}

// Acquire implements vsync.Scheduler.
func (s *S) Acquire(l *vsync.State, write bool, site string) {
	t := s.self()
	s.park(t, l, write, site)
}

// Released implements vsync.Scheduler: releasing a lock is a scheduling point
// too (always enabled), so that the window between a release and the code
// that follows it - where stale snapshots are used - can be interleaved.
func (s *S) Released(*vsync.State, bool) {
	if !s.ReleasePoints {
		return
	}
	t := s.self()
	s.park(t, nil, false, "unlock")
}

// Point is an explicit scheduling point (always enabled).
func (s *S) Point(site string) {
	t := s.self()
	s.park(t, nil, false, site)
}

// NameLock gives a lock a stable name for traces.
func (s *S) NameLock(l *vsync.State, name string) { s.lockNames[l] = name }

// Deadlock is reported through Failf with this signature prefix.
const Deadlock = "deadlock"

// Run schedules until every thread is done. It reports a deadlock (no
// enabled operation while some thread is unfinished) as a violation.
func (s *S) Run() {
	for {
		synctest.Wait()
		s.mu.Lock()
		var enabled []*thread
		unfinished := 0
		var blocked []string
		ts := append([]*thread{}, s.threads...)
		s.mu.Unlock()
		sort.Slice(ts, func(i, j int) bool { return ts[i].id < ts[j].id })
		for _, t := range ts {
			if t.done {
				continue
			}
			if !t.helper {
				unfinished++
			}
			if !t.parked {
				// Durably blocked on something that is not a hook (channel,
				// timer, context).
				blocked = append(blocked, t.label+"@(unhooked wait)")
				continue
			}
			if t.lock == nil || t.lock.CanAcquire(t.write) {
				enabled = append(enabled, t)
			} else {
				blocked = append(blocked, fmt.Sprintf("%s@%s", t.label, t.site))
			}
		}
		if unfinished == 0 && len(enabled) == 0 {
			// Every harness thread finished; helper goroutines (controllers
			// waiting for cancellation, collectors waiting for a tick) are
			// idle.
			return
		}
		if len(enabled) == 0 {
			if s.Clock > 0 && s.Steps < s.MaxSteps {
				s.Steps++
				time.Sleep(s.Clock)
				continue
			}
			s.fail(Deadlock, "no thread can make progress; blocked: %v", blocked)
		}
		s.Steps++
		if s.Steps > s.MaxSteps {
			s.fail("livelock/horizon", "execution exceeded %d scheduling steps", s.MaxSteps)
		}
		// Canonical order: the running thread first if still enabled.
		curEnabled := false
		for i, t := range enabled {
			if t == s.cur {
				enabled[0], enabled[i] = enabled[i], enabled[0]
				curEnabled = true
				// keep the rest sorted by id
				rest := enabled[1:]
				sort.Slice(rest, func(a, b int) bool { return rest[a].id < rest[b].id })
				break
			}
		}
		var c int
		if len(enabled) == 1 {
			c = 0
		} else if curEnabled {
			c = s.r.Choose(len(enabled), "sched")
		} else {
			c = s.r.Free(len(enabled), "sched")
		}
		t := enabled[c]
		if t != s.cur {
			s.r.Logf("-> %s (%s)", t.label, t.site)
		}
		s.cur = t
		if t.lock != nil {
			t.lock.Take(t.write)
		}
		s.mu.Lock()
		t.parked = false
		s.mu.Unlock()
		t.wake <- struct{}{}
	}
}

// Linearizable reports whether the concurrent history of operations can be
// explained by some sequential order that respects real-time precedence,
// according to the sequential specification step. Brute force with
// memoisation; histories are a handful of operations.
type Op struct {
	Thread       string
	Call, Return int // logical timestamps (Call < Return)
	Name         string
	Args         string
	Result       string
}

// Alt is one allowed (result, next state) of an operation in a state.
type Alt struct{ Result, Next string }

// Linearizable checks ops against a specification. init is the initial spec
// state; step returns the allowed results (with next states) of applying op
// to a state (states are strings so they can be memoised).
func Linearizable(ops []Op, init string, step func(state string, op Op) []Alt) bool {
	n := len(ops)
	if n > 20 {
		panic("history too long")
	}
	seen := map[string]bool{}
	var rec func(done uint32, state string) bool
	rec = func(done uint32, state string) bool {
		if done == (1<<uint(n))-1 {
			return true
		}
		key := fmt.Sprintf("%d|%s", done, state)
		if seen[key] {
			return false
		}
		seen[key] = true
		// An op may be linearized next if no other pending op returned
		// before it was called.
		minReturn := 1 << 30
		for i, o := range ops {
			if done&(1<<uint(i)) == 0 && o.Return < minReturn {
				minReturn = o.Return
			}
		}
		for i, o := range ops {
			if done&(1<<uint(i)) != 0 || o.Call > minReturn {
				continue
			}
			for _, a := range step(state, o) {
				if a.Result != o.Result {
					continue
				}
				if rec(done|1<<uint(i), a.Next) {
					return true
				}
			}
		}
		return false
	}
	return rec(0, init)
}
