// Package explore is the bounded exhaustive explorer used by every check.
//
// An execution is one run of a deterministic body that obtains every
// nondeterministic decision from Run.Choose. The explorer enumerates, by
// stateless depth-first search over choice sequences, every execution whose
// number of deviations (non-default answers at costed points) stays within a
// bound. Free points (cost 0) are enumerated exhaustively; they are how
// scenario parameters and input shapes are generated. Any execution is
// reproduced by replaying its choice list.
package explore

import (
	"crypto/sha256"
	"fmt"
	"os"
	"path/filepath"
	"runtime/debug"
	"strings"
	"sync"
	"time"
)

// A Point is one decision taken during an execution.
type Point struct {
	N     int    // number of alternatives
	Label string // human readable
	Cost  int    // deviation cost of a non-default alternative (0 = free)
}

// Run is one execution.
type Run struct {
	e       *Explorer
	prefix  []int
	Choices []int
	Points  []Point
	devs    int
	Trace   []string // readable event log of this execution
	pruned  bool
	noPrune bool
	later   *Failure
	laterMu sync.Mutex
	// Budget is the deviation bound of the exploration that owns the run.
	Budget int
}

// pruneSignal unwinds a body whose state was already visited.
type pruneSignal struct{}

// HarnessError is raised (by panic) for conditions that are the harness'
// fault, never the code's: replay divergence, out-of-range replay choices.
type HarnessError struct{ Msg string }

func (h HarnessError) Error() string { return "harness error: " + h.Msg }

func (r *Run) choose(n int, label string, cost int) int {
	if n <= 0 {
		panic(HarnessError{fmt.Sprintf("Choose(%d) at %q", n, label)})
	}
	i := len(r.Choices)
	c := 0
	if i < len(r.prefix) {
		c = r.prefix[i]
		if c >= n {
			panic(HarnessError{fmt.Sprintf("replay divergence: choice %d of %d at point %d %q", c, n, i, label)})
		}
	}
	if c != 0 {
		r.devs += cost
	}
	r.Choices = append(r.Choices, c)
	r.Points = append(r.Points, Point{N: n, Label: label, Cost: cost})
	return c
}

// Choose takes a costed decision: alternative 0 is the default, any other
// alternative is one deviation.
func (r *Run) Choose(n int, label string) int { return r.choose(n, label, 1) }

// Free takes a decision that is enumerated exhaustively (cost 0).
func (r *Run) Free(n int, label string) int { return r.choose(n, label, 0) }

// Bool is Free(2) as a boolean.
func (r *Run) Bool(label string) bool { return r.Free(2, label) == 1 }

// Deviations used so far.
func (r *Run) Deviations() int { return r.devs }

// Remaining deviation budget.
func (r *Run) Remaining() int { return r.Budget - r.devs }

// Logf appends to the execution trace.
func (r *Run) Logf(format string, a ...any) {
	if len(r.Trace) < 4000 {
		r.Trace = append(r.Trace, fmt.Sprintf(format, a...))
	}
}

// Seen reports whether the state identified by key was already reached by an
// earlier execution with at least the remaining deviation budget; if so the
// execution is abandoned (its futures were already explored). The key must
// determine the future of the body completely.
func (r *Run) Seen(key string) {
	if r.e == nil || r.e.visited == nil || r.noPrune {
		return
	}
	// Only prune once the replayed prefix is exhausted: while replaying we
	// are on the way to an unexplored suffix.
	if len(r.Choices) < len(r.prefix) {
		return
	}
	rem := r.Remaining()
	if old, ok := r.e.visited[key]; ok && old >= rem {
		r.pruned = true
		panic(pruneSignal{})
	}
	r.e.visited[key] = rem
	r.e.Stats.States++
}

// SeenRank is Seen for depth-bounded searches: the state key was reached with
// stepsLeft steps remaining. The execution is abandoned if the same key was
// reached earlier with at least as many steps left and at least the same
// remaining deviation budget (its futures are a superset).
func (r *Run) SeenRank(key string, stepsLeft int) {
	if r.e == nil || r.e.ranked == nil || r.noPrune {
		return
	}
	if len(r.Choices) < len(r.prefix) {
		return
	}
	rem := r.Remaining()
	for _, p := range r.e.ranked[key] {
		if p[0] >= stepsLeft && p[1] >= rem {
			r.pruned = true
			panic(pruneSignal{})
		}
	}
	if _, ok := r.e.ranked[key]; !ok {
		r.e.Stats.States++
	}
	r.e.ranked[key] = append(r.e.ranked[key], [2]int{stepsLeft, rem})
}

// Violation describes a property violation found in one execution.
type Violation struct {
	Signature string   `json:"signature"` // stable identity: invariant id + failing site/input shape
	Message   string   `json:"message"`
	Scenario  string   `json:"scenario"`
	Choices   []int    `json:"choices"`
	Labels    []string `json:"labels,omitempty"` // labels of non-default choices
	Trace     []string `json:"trace,omitempty"`
}

// Failure is what a body panics with (via Run.Failf) to report a violation.
type Failure struct {
	Signature string
	Message   string
}

// FailLater records a violation without unwinding (for code that runs on a
// goroutine other than the body's, e.g. store hooks called from worker
// goroutines). The first recorded violation is raised by Raise, or when the
// body returns.
func (r *Run) FailLater(signature, format string, a ...any) {
	r.laterMu.Lock()
	defer r.laterMu.Unlock()
	if r.later == nil {
		r.later = &Failure{Signature: signature, Message: fmt.Sprintf(format, a...)}
	}
}

// Raise panics with the violation recorded by FailLater, if any.
func (r *Run) Raise() {
	r.laterMu.Lock()
	f := r.later
	r.laterMu.Unlock()
	if f != nil {
		panic(*f)
	}
}

// Failf reports a violation of the property in this execution and stops it.
func (r *Run) Failf(signature, format string, a ...any) {
	panic(Failure{Signature: signature, Message: fmt.Sprintf(format, a...)})
}

// Stats of an exploration.
type Stats struct {
	Executions int
	Pruned     int
	States     int
	MaxPoints  int
	Capped     bool // a cap (time, executions) stopped the exploration early
	Bound      int
}

// Explorer enumerates executions of Body.
type Explorer struct {
	Scenario string
	Bound    int // max deviations
	Body     func(r *Run)
	// After is called after every complete (non-pruned, non-violating)
	// execution.
	After func(r *Run)
	// OnViolation receives each violation (after it was replayed to confirm
	// determinism).
	OnViolation   func(v Violation)
	Deadline      time.Time
	MaxExec       int
	Shard, Shards int
	Prune         bool // enable Seen()-based pruning
	// Mute is called with true/false around executions that another shard
	// accounts for, so that collectors can ignore them.
	Mute func(bool)
	// ClaimDir enables dynamic claiming of subtrees between shard processes.
	ClaimDir string
	// Wrap, if set, runs the body (e.g. inside a synctest bubble).
	Wrap func(fn func())
	// OnCut, if set, runs on the body's goroutine (inside Wrap) after an
	// execution was cut short by a prune, an abort or a failure: the place
	// to let goroutines the code under test left behind finish.
	OnCut func()

	lastStack string
	visited map[string]int
	ranked  map[string][][2]int
	Stats   Stats
	seenSig map[string]bool
}

type outcome struct {
	run   *Run
	fail  *Failure
	stack string
}

func (e *Explorer) exec(prefix []int, noPrune ...bool) (out outcome) {
	r := &Run{e: e, prefix: prefix, Budget: e.Bound, noPrune: len(noPrune) > 0 && noPrune[0]}
	out.run = r
	body := func() {
		defer func() {
			if p := recover(); p != nil {
				if e.OnCut != nil {
					e.OnCut()
				}
				switch v := p.(type) {
				case pruneSignal:
				case Failure:
					out.fail = &v
				case HarnessError:
					panic(v)
				default:
					// An unexpected panic in the code under test or the
					// harness. Bodies that treat panics as property
					// violations recover them themselves.
					out.fail = &Failure{Signature: "panic", Message: fmt.Sprint(p)}
					out.stack = string(debug.Stack())
				}
			}
		}()
		e.Body(r)
		r.Raise()
	}
	if e.Wrap != nil {
		e.Wrap(body)
	} else {
		body()
	}
	return out
}

// LastStack returns the stack of the panic (if any) of the last Replay.
func (e *Explorer) LastStack() string { return e.lastStack }

// Replay runs exactly one execution from a choice list.
func (e *Explorer) Replay(choices []int) (*Run, *Failure) {
	o := e.exec(choices, true)
	e.lastStack = o.stack
	return o.run, o.fail
}

func (e *Explorer) stop() bool {
	if e.MaxExec > 0 && e.Stats.Executions >= e.MaxExec {
		e.Stats.Capped = true
		return true
	}
	if !e.Deadline.IsZero() && time.Now().After(e.Deadline) {
		e.Stats.Capped = true
		return true
	}
	return false
}

// Explore enumerates all executions within the bound (restricted to this
// shard's level-1 subtrees when sharded).
func (e *Explorer) Explore() {
	if e.Prune {
		e.visited = map[string]int{}
		e.ranked = map[string][][2]int{}
	}
	e.seenSig = map[string]bool{}
	e.Stats.Bound = e.Bound
	if e.Shards <= 1 {
		e.dfs(nil, 0)
		return
	}
	// Sharded: the tree is expanded breadth-first (every shard replays the
	// same interior executions; each is accounted by exactly one shard) until
	// there are enough subtrees to deal round-robin; each shard then explores
	// its subtrees depth-first.
	type unit struct {
		prefix []int
		from   int
	}
	queue := []unit{{nil, 0}}
	target := 8 * e.Shards
	idx := 0
	for len(queue) > 0 && len(queue) < target && idx < 4096 {
		u := queue[0]
		queue = queue[1:]
		owned := idx%e.Shards == e.Shard
		if !owned && e.Mute != nil {
			e.Mute(true)
		}
		o := e.exec(u.prefix)
		if !owned && e.Mute != nil {
			e.Mute(false)
		}
		if owned {
			e.account(o)
		}
		idx++
		r := o.run
		devs := 0
		for i := 0; i < len(r.Points); i++ {
			if i >= u.from {
				p := r.Points[i]
				if devs+p.Cost <= e.Bound {
					for alt := 1; alt < p.N; alt++ {
						pre := append(append([]int{}, r.Choices[:i]...), alt)
						queue = append(queue, unit{pre, len(pre)})
					}
				}
			}
			if r.Choices[i] != 0 {
				devs += r.Points[i].Cost
			}
		}
	}
	for j, u := range queue {
		if !e.claim(j) {
			continue
		}
		if e.stop() {
			return
		}
		e.dfs(u.prefix, u.from)
	}
}

// claim decides whether this shard explores subtree j: dynamically through
// exclusive file creation in ClaimDir when set (every shard computes the
// same subtree list, so claims are consistent), else round-robin.
func (e *Explorer) claim(j int) bool {
	if e.ClaimDir == "" {
		return j%e.Shards == e.Shard
	}
	h := sha256.Sum256([]byte(e.Scenario))
	name := filepath.Join(e.ClaimDir, fmt.Sprintf("%x-%d", h[:6], j))
	f, err := os.OpenFile(name, os.O_CREATE|os.O_EXCL|os.O_WRONLY, 0o644)
	if err != nil {
		return false
	}
	f.Close()
	return true
}

func (e *Explorer) account(o outcome) {
	e.Stats.Executions++
	if n := len(o.run.Points); n > e.Stats.MaxPoints {
		e.Stats.MaxPoints = n
	}
	if o.run.pruned {
		e.Stats.Pruned++
		return
	}
	if o.fail != nil {
		e.violation(o)
		return
	}
	if e.After != nil {
		e.After(o.run)
	}
}

func (e *Explorer) violation(o outcome) {
	// Confirm by replaying: the same choice list must fail the same way.
	// Pruning is disabled for the confirmation (Seen only prunes beyond the
	// prefix and the prefix is the whole execution).
	sig := o.fail.Signature
	for i := 0; i < 2; i++ {
		o2 := e.exec(o.run.Choices, true)
		if o2.fail == nil || o2.fail.Signature != sig {
			msg := "<none>"
			if o2.fail != nil {
				msg = o2.fail.Signature + ": " + o2.fail.Message
			}
			panic(HarnessError{fmt.Sprintf("non-deterministic violation in scenario %s: first %q then %s (choices %v)", e.Scenario, sig+": "+o.fail.Message, msg, o.run.Choices)})
		}
	}
	if sig == "panic" && !e.seenSig[sig] {
		fmt.Fprintf(os.Stderr, "panic in scenario %s choices %v: %s\n%s\n", e.Scenario, o.run.Choices, o.fail.Message, o.stack)
	}
	e.seenSig[sig] = true
	v := Violation{Signature: sig, Message: o.fail.Message, Scenario: e.Scenario, Choices: append([]int{}, o.run.Choices...), Trace: o.run.Trace}
	for i, c := range o.run.Choices {
		if c != 0 {
			v.Labels = append(v.Labels, fmt.Sprintf("#%d %s = %d/%d", i, o.run.Points[i].Label, c, o.run.Points[i].N))
		}
	}
	if e.OnViolation != nil {
		e.OnViolation(v)
	}
}

// dfs runs prefix (default choices after it) and then every extension that
// deviates at a later point, within the bound. from is the first index at
// which alternatives are to be expanded.
func (e *Explorer) dfs(prefix []int, from int) {
	if e.stop() {
		return
	}
	o := e.exec(prefix)
	e.account(o)
	r := o.run
	devs := 0
	for i := 0; i < len(r.Points); i++ {
		if i >= from {
			p := r.Points[i]
			if devs+p.Cost <= e.Bound {
				for alt := 1; alt < p.N; alt++ {
					pre := append(append([]int{}, r.Choices[:i]...), alt)
					e.dfs(pre, len(pre))
					if e.Stats.Capped {
						return
					}
				}
			}
		}
		if r.Choices[i] != 0 {
			devs += r.Points[i].Cost
		}
	}
}

// Describe renders the non-default choices of a run.
func Describe(r *Run) string {
	var b strings.Builder
	for i, c := range r.Choices {
		if c != 0 || r.Points[i].Cost == 0 {
			fmt.Fprintf(&b, "%s=%d ", r.Points[i].Label, c)
		}
	}
	return strings.TrimSpace(b.String())
}
