// Package pkgh builds the real package-manager reconcilers over simkube with
// a scripted registry.
package pkgh

import (
	"context"
	"crypto/sha256"
	"encoding/hex"
	"errors"
	"fmt"

	"github.com/google/go-containerregistry/pkg/name"
	regv1 "github.com/google/go-containerregistry/pkg/v1"
	ctrl "sigs.k8s.io/controller-runtime"
	"sigs.k8s.io/controller-runtime/pkg/client"

	v1 "github.com/crossplane/crossplane/apis/pkg/v1"
	"github.com/crossplane/crossplane/internal/controller/pkg/manager"
	"github.com/crossplane/crossplane/internal/xpkg"
)

// Mgr is a minimal ctrl.Manager: the reconciler constructors only ask it for
// the client.
type Mgr struct {
	ctrl.Manager
	C client.Client
}

// GetClient returns the client.
func (m *Mgr) GetClient() client.Client { return m.C }

// Registry is a scripted xpkg.Fetcher: tag -> digest table per repository,
// and optional images per digest.
type Registry struct {
	// Tags maps "repo:tag" (repository as written in the package source,
	// without default registry) to a digest label such as "A".
	Table map[string]string
	// Images maps digest label to an image (for Fetch).
	Images map[string]regv1.Image
	// Fail makes Head/Fetch fail.
	Fail bool
	// Heads counts Head calls.
	Heads int
}

// Digest returns the (fake, but well-formed) sha256 hex for a digest label.
func Digest(label string) string {
	h := sha256.Sum256([]byte("digest-" + label))
	return hex.EncodeToString(h[:])
}

func (r *Registry) lookup(ref name.Reference) (string, error) {
	if r.Fail {
		return "", errors.New("registry unavailable")
	}
	key := ref.Context().RepositoryStr() + ":" + ref.Identifier()
	l, ok := r.Table[key]
	if !ok {
		return "", fmt.Errorf("manifest unknown: %s", key)
	}
	return l, nil
}

// Head implements xpkg.Fetcher.
func (r *Registry) Head(_ context.Context, ref name.Reference, _ ...string) (*regv1.Descriptor, error) {
	r.Heads++
	l, err := r.lookup(ref)
	if err != nil {
		return nil, err
	}
	return &regv1.Descriptor{Digest: regv1.Hash{Algorithm: "sha256", Hex: Digest(l)}}, nil
}

// Fetch implements xpkg.Fetcher.
func (r *Registry) Fetch(_ context.Context, ref name.Reference, _ ...string) (regv1.Image, error) {
	l, err := r.lookup(ref)
	if err != nil {
		return nil, err
	}
	img, ok := r.Images[l]
	if !ok {
		return nil, fmt.Errorf("no image for digest %s", l)
	}
	return img, nil
}

// Tags implements xpkg.Fetcher.
func (r *Registry) Tags(_ context.Context, ref name.Reference, _ ...string) ([]string, error) {
	if r.Fail {
		return nil, errors.New("registry unavailable")
	}
	var out []string
	prefix := ref.Context().RepositoryStr() + ":"
	for k := range r.Table {
		if len(k) > len(prefix) && k[:len(prefix)] == prefix {
			out = append(out, k[len(prefix):])
		}
	}
	return out, nil
}

var _ xpkg.Fetcher = &Registry{}

// NewProviderManager builds the package manager reconciler for Providers as
// SetupProvider does, with the scripted registry.
func NewProviderManager(c client.Client, reg xpkg.Fetcher) *manager.Reconciler {
	return manager.NewReconciler(&Mgr{C: c},
		manager.WithNewPackageFn(func() v1.Package { return &v1.Provider{} }),
		manager.WithNewPackageRevisionFn(func() v1.PackageRevision { return &v1.ProviderRevision{} }),
		manager.WithNewPackageRevisionListFn(func() v1.PackageRevisionList { return &v1.ProviderRevisionList{} }),
		manager.WithRevisioner(manager.NewPackageRevisioner(reg, manager.WithDefaultRegistry("xpkg.upbound.io"))),
		manager.WithConfigStore(xpkg.NewImageConfigStore(c, "crossplane-system")),
	)
}

// NewConfigurationManager is the Configuration variant.
func NewConfigurationManager(c client.Client, reg xpkg.Fetcher) *manager.Reconciler {
	return manager.NewReconciler(&Mgr{C: c},
		manager.WithNewPackageFn(func() v1.Package { return &v1.Configuration{} }),
		manager.WithNewPackageRevisionFn(func() v1.PackageRevision { return &v1.ConfigurationRevision{} }),
		manager.WithNewPackageRevisionListFn(func() v1.PackageRevisionList { return &v1.ConfigurationRevisionList{} }),
		manager.WithRevisioner(manager.NewPackageRevisioner(reg, manager.WithDefaultRegistry("xpkg.upbound.io"))),
		manager.WithConfigStore(xpkg.NewImageConfigStore(c, "crossplane-system")),
	)
}
