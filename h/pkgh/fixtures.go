package pkgh

import (
	"fmt"
	"strings"
)

// MetaYAML renders a package meta object of the given kind (Provider,
// Configuration, Function) with an optional crossplane version constraint.
func MetaYAML(kind, name, constraint string) string {
	api := "meta.pkg.crossplane.io/v1"
	if kind == "Function" {
		api = "meta.pkg.crossplane.io/v1beta1"
	}
	s := fmt.Sprintf("apiVersion: %s\nkind: %s\nmetadata:\n  name: %s\n", api, kind, name)
	spec := ""
	if constraint != "" {
		spec += fmt.Sprintf("  crossplane:\n    version: %q\n", constraint)
	}
	if kind == "Provider" {
		spec += "  controller:\n    image: example/provider:latest\n"
	}
	if kind == "Function" {
		spec += "  image: example/function:latest\n"
	}
	if spec != "" {
		s += "spec:\n" + spec
	}
	return s
}

// CRDYAML renders a minimal structural CRD <plural>.<group> whose single
// version carries a marker field name so that content differences are visible.
func CRDYAML(group, kind, marker string) string {
	plural := strings.ToLower(kind) + "s"
	return fmt.Sprintf(`apiVersion: apiextensions.k8s.io/v1
kind: CustomResourceDefinition
metadata:
  name: %s.%s
spec:
  group: %s
  names:
    kind: %q
    listKind: %sList
    plural: %s
    singular: %s
  scope: Cluster
  versions:
  - name: v1
    served: true
    storage: true
    schema:
      openAPIV3Schema:
        type: object
        properties:
          spec:
            type: object
            properties:
              %s:
                type: string
`, plural, group, group, kind, kind, plural, strings.ToLower(kind), marker)
}

// XRDYAML renders a minimal XRD.
func XRDYAML(group, kind string) string {
	plural := strings.ToLower(kind) + "s"
	return fmt.Sprintf(`apiVersion: apiextensions.crossplane.io/v1
kind: CompositeResourceDefinition
metadata:
  name: %s.%s
spec:
  group: %s
  names:
    kind: %q
    plural: %s
  versions:
  - name: v1
    served: true
    referenceable: true
    schema:
      openAPIV3Schema:
        type: object
`, plural, group, group, kind, plural)
}

// CompositionYAML renders a minimal pipeline Composition.
func CompositionYAML(name, group, kind string) string {
	return fmt.Sprintf(`apiVersion: apiextensions.crossplane.io/v1
kind: Composition
metadata:
  name: %s
spec:
  compositeTypeRef:
    apiVersion: %s/v1
    kind: %s
  mode: Pipeline
  pipeline:
  - step: s
    functionRef:
      name: fn
`, name, group, kind)
}

// WebhookYAML renders a minimal Validating/Mutating webhook configuration.
func WebhookYAML(kind, name string) string {
	return fmt.Sprintf(`apiVersion: admissionregistration.k8s.io/v1
kind: %s
metadata:
  name: %s
webhooks:
- name: w.example.org
  admissionReviewVersions: ["v1"]
  sideEffects: None
  clientConfig:
    service:
      name: svc
      namespace: ns
`, kind, name)
}

// Stream joins YAML documents into a package stream.
func Stream(docs ...string) []byte {
	return []byte(strings.Join(docs, "---\n"))
}
