package pkgh

import (
	"archive/tar"
	"bytes"
	"errors"
	"io"

	regv1 "github.com/google/go-containerregistry/pkg/v1"
	"github.com/google/go-containerregistry/pkg/v1/empty"
	"github.com/google/go-containerregistry/pkg/v1/mutate"
	"github.com/google/go-containerregistry/pkg/v1/tarball"
	"github.com/google/go-containerregistry/pkg/v1/types"
	"github.com/spf13/afero"
	"sigs.k8s.io/controller-runtime/pkg/client"

	"github.com/crossplane/crossplane-runtime/pkg/feature"
	"github.com/crossplane/crossplane-runtime/pkg/parser"

	v1 "github.com/crossplane/crossplane/apis/pkg/v1"
	"github.com/crossplane/crossplane/internal/controller/pkg/revision"
	"github.com/crossplane/crossplane/internal/dag"
	"github.com/crossplane/crossplane/internal/version"
	"github.com/crossplane/crossplane/internal/xpkg"
)

// Layout of a package image.
type Layout int

// Layouts.
const (
	AnnotatedBase  Layout = iota // one layer annotated io.crossplane.xpkg=base
	PlainFS                      // no annotation: package.yaml somewhere in the flattened filesystem
	TwoAnnotated                 // two layers annotated as base (invalid)
	AnnotatedExtra               // annotated base layer plus an unrelated layer
)

func tarOf(name string, content []byte) []byte {
	buf := new(bytes.Buffer)
	tw := tar.NewWriter(buf)
	_ = tw.WriteHeader(&tar.Header{Name: name, Mode: 0o644, Size: int64(len(content))})
	_, _ = tw.Write(content)
	_ = tw.Close()
	return buf.Bytes()
}

// tarOfEntries builds a tar archive with the given entries in order.
func tarOfEntries(names []string, contents [][]byte) []byte {
	buf := new(bytes.Buffer)
	tw := tar.NewWriter(buf)
	for i, n := range names {
		_ = tw.WriteHeader(&tar.Header{Name: n, Mode: 0o644, Size: int64(len(contents[i]))})
		_, _ = tw.Write(contents[i])
	}
	_ = tw.Close()
	return buf.Bytes()
}

func layerOf(tarBytes []byte) regv1.Layer {
	l, err := tarball.LayerFromOpener(func() (io.ReadCloser, error) { return io.NopCloser(bytes.NewReader(tarBytes)), nil })
	if err != nil {
		panic(err)
	}
	return l
}

// FaultyLayer wraps a layer; the n-th call of Uncompressed (1-based) returns a
// reader that fails with an I/O error after FailAt bytes (FailAt < 0: never).
type FaultyLayer struct {
	regv1.Layer
	FailOnCall int
	FailAt     int
	// Style selects how the failure is delivered (io.Reader allows all of
	// them): 0 = (0, err) on the read after the last byte; 1 = (n > 0, err)
	// together with the last bytes; 2 = the stream just ends early with a
	// clean (0, io.EOF); 3 = (n > 0, io.EOF) together with the last bytes.
	Style int
	calls int
}

// Uncompressed implements v1.Layer.
func (f *FaultyLayer) Uncompressed() (io.ReadCloser, error) {
	f.calls++
	rc, err := f.Layer.Uncompressed()
	if err != nil || f.FailAt < 0 || f.calls != f.FailOnCall {
		return rc, err
	}
	return &failingReader{rc: rc, left: f.FailAt, style: f.Style}, nil
}

type failingReader struct {
	rc    io.ReadCloser
	left  int
	style int
}

func (f *failingReader) err() error {
	if f.style >= 2 {
		return io.EOF
	}
	return ErrInjectedRead
}

// ErrInjectedRead is the injected registry read error.
var ErrInjectedRead = errors.New("injected registry read error")

func (f *failingReader) Read(p []byte) (int, error) {
	if f.left <= 0 {
		return 0, f.err()
	}
	if len(p) > f.left {
		p = p[:f.left]
	}
	n, err := f.rc.Read(p)
	f.left -= n
	if err == nil && f.left <= 0 && n > 0 && (f.style == 1 || f.style == 3) {
		return n, f.err()
	}
	return n, err
}

func (f *failingReader) Close() error { return f.rc.Close() }

// rawImage makes an in-memory image behave like one pulled from a registry:
// Manifest() is what parsing RawManifest() yields (mutate's in-memory
// manifests carry empty annotation maps that do not survive serialisation,
// which go-containerregistry's validate.Image reports as a mismatch).
type rawImage struct{ regv1.Image }

func (r rawImage) Manifest() (*regv1.Manifest, error) {
	b, err := r.RawManifest()
	if err != nil {
		return nil, err
	}
	return regv1.ParseManifest(bytes.NewReader(b))
}

// AsPulled wraps an in-memory image so that it validates like a pulled one.
func AsPulled(img regv1.Image) regv1.Image { return rawImage{img} }

// BuildImage builds a package image carrying the YAML stream in the given
// layout. wrap, if not nil, wraps the package layer (fault injection).
func BuildImage(stream []byte, layout Layout, wrap func(regv1.Layer) regv1.Layer) regv1.Image {
	return BuildImageDecoy(stream, nil, layout, wrap)
}

// BuildImageDecoy is BuildImage with, when decoy is not nil, other files
// named package.yaml in sub-directories of the package layer, stored before
// and after the real one (e.g. an examples/ directory). Only the root
// package.yaml is the package.
func BuildImageDecoy(stream, decoy []byte, layout Layout, wrap func(regv1.Layer) regv1.Layer) regv1.Image {
	pkgLayer := layerOf(tarOf(xpkg.StreamFile, stream))
	if decoy != nil {
		pkgLayer = layerOf(tarOfEntries(
			[]string{"examples/" + xpkg.StreamFile, xpkg.StreamFile + ".orig", xpkg.StreamFile, "zz/" + xpkg.StreamFile},
			[][]byte{decoy, decoy, stream, decoy}))
	}
	if wrap != nil {
		pkgLayer = wrap(pkgLayer)
	}
	other := layerOf(tarOf("README.md", []byte("hello")))
	img := empty.Image
	var err error
	add := func(l regv1.Layer, annotated bool) {
		a := mutate.Addendum{Layer: l, MediaType: types.DockerLayer}
		if annotated {
			a.Annotations = map[string]string{"io.crossplane.xpkg": "base"}
		}
		img, err = mutate.Append(img, a)
		if err != nil {
			panic(err)
		}
	}
	switch layout {
	case AnnotatedBase:
		add(pkgLayer, true)
	case PlainFS:
		add(other, false)
		add(pkgLayer, false)
	case TwoAnnotated:
		add(pkgLayer, true)
		add(layerOf(tarOf(xpkg.StreamFile, stream)), true)
	case AnnotatedExtra:
		add(other, false)
		add(pkgLayer, true)
	}
	return rawImage{img}
}

// RevisionOptions configure NewRevisionReconciler.
type RevisionOptions struct {
	Kind       string // Provider | Configuration | Function
	Client     client.Client
	Registry   xpkg.Fetcher
	Cache      xpkg.PackageCache
	Fs         afero.Fs // used to build a FsPackageCache when Cache is nil
	Features   *feature.Flags
	Establish  revision.Establisher
	Concurrent int
	Extra      []revision.ReconcilerOption
}

// NewRevisionReconciler builds the package revision reconciler the way the
// Setup*Revision functions do (real parser, image backend, per-type linter,
// filesystem cache, API establisher, dependency manager), without runtime
// hooks.
func NewRevisionReconciler(o RevisionOptions) *revision.Reconciler {
	metaScheme, err := xpkg.BuildMetaScheme()
	if err != nil {
		panic(err)
	}
	objScheme, err := xpkg.BuildObjectScheme()
	if err != nil {
		panic(err)
	}
	cache := o.Cache
	if cache == nil {
		fs := o.Fs
		if fs == nil {
			fs = afero.NewMemMapFs()
		}
		cache = xpkg.NewFsPackageCache("/cache", fs)
	}
	conc := o.Concurrent
	if conc == 0 {
		conc = 1
	}
	var nr func() v1.PackageRevision
	var linter parser.Linter
	pkgType := v1.ConfigurationGroupVersionKind
	switch o.Kind {
	case "Provider":
		nr = func() v1.PackageRevision { return &v1.ProviderRevision{} }
		linter = xpkg.NewProviderLinter()
		pkgType = v1.ProviderGroupVersionKind
	case "Function":
		nr = func() v1.PackageRevision { return &v1.FunctionRevision{} }
		linter = xpkg.NewFunctionLinter()
		pkgType = v1.FunctionGroupVersionKind
	default:
		nr = func() v1.PackageRevision { return &v1.ConfigurationRevision{} }
		linter = xpkg.NewConfigurationLinter()
	}
	feats := o.Features
	if feats == nil {
		feats = &feature.Flags{}
	}
	est := o.Establish
	if est == nil {
		est = revision.NewAPIEstablisher(o.Client, "crossplane-system", conc)
	}
	opts := []revision.ReconcilerOption{
		revision.WithCache(cache),
		revision.WithDependencyManager(revision.NewPackageDependencyManager(o.Client, dag.NewMapDag, pkgType)),
		revision.WithNewPackageRevisionFn(nr),
		revision.WithEstablisher(est),
		revision.WithParser(parser.New(metaScheme, objScheme)),
		revision.WithParserBackend(revision.NewImageBackend(o.Registry, revision.WithDefaultRegistry("xpkg.upbound.io"))),
		revision.WithConfigStore(xpkg.NewImageConfigStore(o.Client, "crossplane-system")),
		revision.WithLinter(linter),
		revision.WithNamespace("crossplane-system"),
		revision.WithFeatureFlags(feats),
	}
	// The running Crossplane version is the real version.Versioner; vcheck
	// links the binary with -X internal/version.version=v1.20.0.
	opts = append(opts, revision.WithVersioner(version.New()))
	opts = append(opts, o.Extra...)
	return revision.NewReconciler(&Mgr{C: o.Client}, opts...)
}
