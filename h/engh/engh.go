// Package engh builds the real internal/engine.ControllerEngine over fakes of
// what controller-runtime provides (an elected manager, an informer cache
// that records event handler registrations per kind, and controllers whose
// Start blocks until their context is cancelled), so that checks can run the
// real engine under reconcilers that start and stop dynamic controllers.
package engh

import (
	"context"
	"fmt"
	"sync"

	"k8s.io/apimachinery/pkg/runtime"
	"k8s.io/apimachinery/pkg/runtime/schema"
	kcache "k8s.io/client-go/tools/cache"
	"sigs.k8s.io/controller-runtime/pkg/cache"
	"sigs.k8s.io/controller-runtime/pkg/client"
	"sigs.k8s.io/controller-runtime/pkg/client/apiutil"
	kcontroller "sigs.k8s.io/controller-runtime/pkg/controller"
	"sigs.k8s.io/controller-runtime/pkg/manager"
	"sigs.k8s.io/controller-runtime/pkg/reconcile"
	"sigs.k8s.io/controller-runtime/pkg/source"

	"github.com/crossplane/crossplane/internal/engine"
)

type fakeMgr struct {
	manager.Manager
	elected chan struct{}
	scheme  *runtime.Scheme
}

func (m *fakeMgr) Elected() <-chan struct{}   { return m.elected }
func (m *fakeMgr) GetScheme() *runtime.Scheme { return m.scheme }

type registration struct {
	inf *fakeInformer
	h   kcache.ResourceEventHandler
}

func (r *registration) HasSynced() bool { return true }

type fakeInformer struct {
	cache.Informer
	regs map[*registration]bool
	c    *Cache
}

func (i *fakeInformer) AddEventHandler(h kcache.ResourceEventHandler) (kcache.ResourceEventHandlerRegistration, error) {
	i.c.mu.Lock()
	defer i.c.mu.Unlock()
	r := &registration{inf: i, h: h}
	i.regs[r] = true
	return r, nil
}

func (i *fakeInformer) RemoveEventHandler(h kcache.ResourceEventHandlerRegistration) error {
	i.c.mu.Lock()
	defer i.c.mu.Unlock()
	if r, ok := h.(*registration); ok {
		delete(i.regs, r)
	}
	return nil
}

// Cache is the cache.Cache under the engine's InformerTrackingCache.
type Cache struct {
	cache.Cache
	scheme *runtime.Scheme
	mu     sync.Mutex
	infs   map[schema.GroupVersionKind]*fakeInformer
	// Fail, when set, decides whether this informer lookup fails.
	Fail func(gvk schema.GroupVersionKind) bool
}

// GetInformer implements cache.Informers.
func (c *Cache) GetInformer(_ context.Context, obj client.Object, _ ...cache.InformerGetOption) (cache.Informer, error) {
	gvk, err := apiutil.GVKForObject(obj, c.scheme)
	if err != nil {
		return nil, err
	}
	if c.Fail != nil && c.Fail(gvk) {
		return nil, fmt.Errorf("injected informer error for %s", gvk.Kind)
	}
	c.mu.Lock()
	defer c.mu.Unlock()
	i, ok := c.infs[gvk]
	if !ok {
		i = &fakeInformer{regs: map[*registration]bool{}, c: c}
		c.infs[gvk] = i
	}
	return i, nil
}

// RemoveInformer implements cache.Informers.
func (c *Cache) RemoveInformer(_ context.Context, obj client.Object) error {
	gvk, err := apiutil.GVKForObject(obj, c.scheme)
	if err != nil {
		return err
	}
	c.mu.Lock()
	defer c.mu.Unlock()
	delete(c.infs, gvk)
	return nil
}

// LiveHandlers returns the number of registered event handlers of a kind.
func (c *Cache) LiveHandlers(gvk schema.GroupVersionKind) int {
	c.mu.Lock()
	defer c.mu.Unlock()
	if i, ok := c.infs[gvk]; ok {
		return len(i.regs)
	}
	return 0
}

// Controller is a controller started by the engine.
type Controller struct {
	kcontroller.Controller
	Name      string
	mu        sync.Mutex
	started   bool
	cancelled bool
	kill      chan struct{}
}

// Watch implements controller.Controller.
func (f *Controller) Watch(src source.TypedSource[reconcile.Request]) error {
	return src.Start(context.Background(), nil)
}

// Start implements controller.Controller: it blocks until cancelled.
func (f *Controller) Start(ctx context.Context) error {
	f.mu.Lock()
	f.started = true
	f.mu.Unlock()
	select {
	case <-ctx.Done():
		f.mu.Lock()
		f.cancelled = true
		f.mu.Unlock()
	case <-f.kill:
	}
	return nil
}

// Cancelled reports whether the controller's context was cancelled.
func (f *Controller) Cancelled() bool {
	f.mu.Lock()
	defer f.mu.Unlock()
	return f.cancelled
}

// Engine is the real ControllerEngine with controllers created by the
// harness; it satisfies the ControllerEngine interfaces of the definition and
// offered reconcilers.
type Engine struct {
	*engine.ControllerEngine
	Cache *Cache
	mu    sync.Mutex
	ctrls []*Controller
	// OnStop, if set, is called before every Stop.
	OnStop func(name string)
	// Sync, if set, is called before controller goroutines are inspected; it
	// must return once every goroutine has run as far as it can (inside a
	// synctest bubble: synctest.Wait), so that observations do not depend on
	// goroutine scheduling.
	Sync func()
}

// New builds the real engine over the given clients.
func New(scheme *runtime.Scheme, cached, uncached client.Client) *Engine {
	el := make(chan struct{})
	close(el)
	c := &Cache{scheme: scheme, infs: map[schema.GroupVersionKind]*fakeInformer{}}
	e := &Engine{Cache: c}
	e.ControllerEngine = engine.New(&fakeMgr{elected: el, scheme: scheme}, engine.TrackInformers(c, scheme), cached, uncached)
	return e
}

func (e *Engine) newController(name string, _ manager.Manager, _ kcontroller.Options) (kcontroller.Controller, error) {
	fc := &Controller{Name: name, kill: make(chan struct{})}
	e.mu.Lock()
	e.ctrls = append(e.ctrls, fc)
	e.mu.Unlock()
	return fc, nil
}

// Start starts a controller (the real engine, a harness controller).
func (e *Engine) Start(name string, o ...engine.ControllerOption) error {
	return e.ControllerEngine.Start(name, append(o, engine.WithNewControllerFn(e.newController))...)
}

// Stop stops a controller.
func (e *Engine) Stop(ctx context.Context, name string) error {
	if e.OnStop != nil {
		e.OnStop(name)
	}
	return e.ControllerEngine.Stop(ctx, name)
}

// Live returns the controllers of that name that were started and whose
// context has not been cancelled.
func (e *Engine) Live(name string) int {
	if e.Sync != nil {
		e.Sync()
	}
	e.mu.Lock()
	defer e.mu.Unlock()
	n := 0
	for _, c := range e.ctrls {
		c.mu.Lock()
		if c.Name == name && !c.cancelled {
			n++
		}
		c.mu.Unlock()
	}
	return n
}

// Shutdown releases every controller goroutine (end of an execution).
func (e *Engine) Shutdown() {
	e.mu.Lock()
	defer e.mu.Unlock()
	for _, c := range e.ctrls {
		select {
		case <-c.kill:
		default:
			close(c.kill)
		}
	}
}
