// Package report collects what a check run covered and writes the per-shard
// result file that vcheck merges into evidence/<ID>.json.
package report

import (
	"crypto/sha256"
	"encoding/hex"
	"encoding/json"
	"flag"
	"fmt"
	"os"
	"sort"
	"strconv"
	"strings"
	"sync"
	"testing"
	"time"

	"github.com/crossplane/crossplane/verif/explore"
)

// Flags shared by all check binaries.
var (
	Tier     = flag.String("tier", envOr("VERIF_TIER", "quick"), "quick|thorough")
	ShardStr = flag.String("shard", "0/1", "i/n")
	Out      = flag.String("out", "", "shard result file")
	ReplayF  = flag.String("replay", "", "artifact to replay")
	ClaimDir = flag.String("claimdir", "", "directory for dynamic subtree claiming between shards")
	Budget   = flag.Duration("budget", 0, "wall clock budget for this shard (0 = tier default)")
)

func envOr(k, d string) string {
	if v := os.Getenv(k); v != "" {
		return v
	}
	return d
}

// Shard returns (i, n).
func Shard() (int, int) {
	p := strings.Split(*ShardStr, "/")
	if len(p) != 2 {
		return 0, 1
	}
	i, _ := strconv.Atoi(p[0])
	n, _ := strconv.Atoi(p[1])
	if n < 1 {
		n = 1
	}
	return i, n
}

// Thorough reports whether the thorough tier was requested.
func Thorough() bool { return *Tier == "thorough" }

// Result is the shard result file.
type Result struct {
	Property    string              `json:"property_id"`
	Tier        string              `json:"tier"`
	Level       string              `json:"level"`
	Shard       int                 `json:"shard"`
	Shards      int                 `json:"shards"`
	Evaluations int                 `json:"evaluations"`
	Nontrivial  []string            `json:"nontrivial_hashes"`
	Outcomes    []string            `json:"outcome_hashes"`
	States      int                 `json:"states"`
	Transitions int                 `json:"transitions"`
	Pruned      int                 `json:"pruned"`
	Samples     []any               `json:"samples"`
	Violations  []explore.Violation `json:"violations"`
	Capped      bool                `json:"capped"`
	Bounds      map[string]any      `json:"bounds"`
	Scenarios   map[string]int      `json:"scenarios"` // executions per scenario
	Rule        string              `json:"rule"`
	Assumptions []string            `json:"assumptions"`
	Trusted     []string            `json:"trusted_base"`
	Notes       []string            `json:"notes"`
	Determinism string              `json:"determinism_selfcheck"`
	WallS       float64             `json:"wall_s"`
	Extra       map[string]any      `json:"extra,omitempty"`
}

// R is the collector for one check run.
type R struct {
	mu         sync.Mutex
	res        Result
	nontrivial map[string]bool
	outcomes   map[string]bool
	vsigs      map[string]bool
	start      time.Time
	deadline   time.Time
	muted      bool
}

func (r *R) mute(m bool) {
	r.mu.Lock()
	r.muted = m
	r.mu.Unlock()
}

// New creates a collector.
func New(property, level string) *R {
	i, n := Shard()
	r := &R{nontrivial: map[string]bool{}, outcomes: map[string]bool{}, vsigs: map[string]bool{}, start: time.Now()}
	r.res = Result{Property: property, Tier: *Tier, Level: level, Shard: i, Shards: n, Bounds: map[string]any{}, Scenarios: map[string]int{}, Extra: map[string]any{}}
	b := *Budget
	if b == 0 {
		if Thorough() {
			b = 25 * time.Minute
		} else {
			b = 4 * time.Minute
		}
	}
	r.deadline = r.start.Add(b)
	return r
}

// Deadline for explorations of this run.
func (r *R) Deadline() time.Time { return r.deadline }

// Expired reports whether the budget is used up; marks the run capped.
func (r *R) Expired() bool {
	if time.Now().After(r.deadline) {
		r.mu.Lock()
		r.res.Capped = true
		r.mu.Unlock()
		return true
	}
	return false
}

// Hash of arbitrary printable parts.
func Hash(parts ...any) string {
	h := sha256.New()
	for _, p := range parts {
		fmt.Fprintf(h, "%v\x00", p)
	}
	return hex.EncodeToString(h.Sum(nil))[:16]
}

// Eval counts one evaluated case. outcome identifies what was observed
// (distinct outcomes are counted; a single outcome over many cases means the
// exploration is vacuous). nontrivial is the identity of the case if it is
// non-trivial by the check's rule, else "".
func (r *R) Eval(scenario, outcome, nontrivial string) {
	r.mu.Lock()
	defer r.mu.Unlock()
	if r.muted {
		return
	}
	r.res.Evaluations++
	r.res.Scenarios[scenario]++
	if outcome != "" {
		r.outcomes[outcome] = true
	}
	if nontrivial != "" {
		r.nontrivial[nontrivial] = true
	}
}

// Sample records an example case (kept to a small number).
func (r *R) Sample(s any) {
	r.mu.Lock()
	defer r.mu.Unlock()
	if r.muted {
		return
	}
	if len(r.res.Samples) < 6 {
		r.res.Samples = append(r.res.Samples, s)
	}
}

// WantSample reports whether more samples are wanted.
func (r *R) WantSample() bool {
	r.mu.Lock()
	defer r.mu.Unlock()
	return len(r.res.Samples) < 6
}

// AddStates adds to the state / transition counters.
func (r *R) AddStates(states, transitions, pruned int) {
	r.mu.Lock()
	defer r.mu.Unlock()
	r.res.States += states
	r.res.Transitions += transitions
	r.res.Pruned += pruned
}

// Violation records a violation (deduplicated by signature; the first, i.e.
// the one with fewest deviations in DFS order, is kept).
func (r *R) Violation(v explore.Violation) {
	r.mu.Lock()
	defer r.mu.Unlock()
	if r.vsigs[v.Signature] {
		return
	}
	r.vsigs[v.Signature] = true
	if len(v.Trace) > 400 {
		v.Trace = v.Trace[len(v.Trace)-400:]
	}
	r.res.Violations = append(r.res.Violations, v)
}

// Bound records a bound that was used / completed.
func (r *R) Bound(k string, v any) {
	r.mu.Lock()
	defer r.mu.Unlock()
	r.res.Bounds[k] = v
}

// Extra records additional coverage keys.
func (r *R) Extra(k string, v any) {
	r.mu.Lock()
	defer r.mu.Unlock()
	r.res.Extra[k] = v
}

// Capped marks the run as not exhaustive.
func (r *R) Capped() {
	r.mu.Lock()
	defer r.mu.Unlock()
	r.res.Capped = true
}

// Meta sets descriptive fields.
func (r *R) Meta(rule string, assumptions, trusted []string) {
	r.res.Rule = rule
	r.res.Assumptions = assumptions
	r.res.Trusted = trusted
}

// Note appends a free-text note.
func (r *R) Note(format string, a ...any) {
	r.mu.Lock()
	defer r.mu.Unlock()
	r.res.Notes = append(r.res.Notes, fmt.Sprintf(format, a...))
}

// Determinism records the result of the replay self check.
func (r *R) Determinism(s string) { r.res.Determinism = s }

// Run explores one scenario with the standard wiring.
func (r *R) Run(e *explore.Explorer) {
	i, n := Shard()
	e.Shard, e.Shards = i, n
	e.Mute = r.mute
	e.ClaimDir = *ClaimDir
	if e.Deadline.IsZero() {
		e.Deadline = r.deadline
	}
	e.OnViolation = r.Violation
	e.Explore()
	r.AddStates(e.Stats.States, e.Stats.Executions, e.Stats.Pruned)
	if e.Stats.Capped {
		r.Capped()
	}
}

// Write the shard result.
func (r *R) Write(t *testing.T) {
	r.mu.Lock()
	defer r.mu.Unlock()
	for k := range r.nontrivial {
		r.res.Nontrivial = append(r.res.Nontrivial, k)
	}
	for k := range r.outcomes {
		r.res.Outcomes = append(r.res.Outcomes, k)
	}
	sort.Strings(r.res.Nontrivial)
	sort.Strings(r.res.Outcomes)
	r.res.WallS = time.Since(r.start).Seconds()
	b, err := json.MarshalIndent(r.res, "", " ")
	if err != nil {
		t.Fatalf("marshal result: %v", err)
	}
	if *Out == "" {
		fmt.Printf("RESULT evaluations=%d nontrivial=%d outcomes=%d states=%d violations=%d capped=%v\n", r.res.Evaluations, len(r.res.Nontrivial), len(r.res.Outcomes), r.res.States, len(r.res.Violations), r.res.Capped)
		for _, v := range r.res.Violations {
			fmt.Printf("  VIOLATION %s: %s [%s %v]\n", v.Signature, v.Message, v.Scenario, v.Choices)
		}
		return
	}
	if err := os.WriteFile(*Out, b, 0o644); err != nil {
		t.Fatalf("write result: %v", err)
	}
}

// Artifact is a replayable violation file.
type Artifact struct {
	Property  string            `json:"property"`
	Violation explore.Violation `json:"violation"`
}

// LoadReplay loads the artifact named by -replay, if any.
func LoadReplay(t *testing.T) *Artifact {
	if *ReplayF == "" {
		return nil
	}
	b, err := os.ReadFile(*ReplayF)
	if err != nil {
		t.Fatalf("read replay: %v", err)
	}
	a := &Artifact{}
	if err := json.Unmarshal(b, a); err != nil {
		t.Fatalf("parse replay: %v", err)
	}
	return a
}

// Scenario is one closed system to explore.
type Scenario struct {
	Name  string
	Bound int
	Prune bool
	Body  func(r *explore.Run)
	After func(r *explore.Run)
	Wrap  func(fn func())
	OnCut func()
}

// RunScenarios explores every scenario (or replays the artifact given with
// -replay). With many scenarios the list is dealt round-robin to shards;
// with few, each scenario's level-1 subtrees are.
func (r *R) RunScenarios(t *testing.T, scs []Scenario) {
	if a := LoadReplay(t); a != nil {
		for _, sc := range scs {
			if sc.Name != a.Violation.Scenario {
				continue
			}
			e := &explore.Explorer{Scenario: sc.Name, Bound: 1 << 30, Body: sc.Body, Wrap: sc.Wrap, OnCut: sc.OnCut}
			run, fail := e.Replay(a.Violation.Choices)
			if st := e.LastStack(); st != "" {
				fmt.Println(st)
			}
			for _, l := range run.Trace {
				fmt.Println("  ", l)
			}
			if fail != nil {
				fmt.Printf("REPLAY reproduces: %s: %s\n", fail.Signature, fail.Message)
				t.Fatalf("violation reproduced")
			}
			fmt.Println("REPLAY: execution completes without violation")
			return
		}
		t.Fatalf("scenario %q not found", a.Violation.Scenario)
	}
	i, n := Shard()
	byScenario := len(scs) >= 2*n
	for idx, sc := range scs {
		if byScenario && idx%n != i {
			continue
		}
		if r.Expired() {
			r.Note("budget exhausted before scenario %s", sc.Name)
			break
		}
		e := &explore.Explorer{Scenario: sc.Name, Bound: sc.Bound, Body: sc.Body, After: sc.After, Prune: sc.Prune, Wrap: sc.Wrap, OnCut: sc.OnCut, Deadline: r.deadline}
		if byScenario {
			e.OnViolation = r.Violation
			e.Explore()
			r.AddStates(e.Stats.States, e.Stats.Executions, e.Stats.Pruned)
			if e.Stats.Capped {
				r.Capped()
				r.Note("scenario %s capped after %d executions", sc.Name, e.Stats.Executions)
			}
		} else {
			r.Run(e)
		}
	}
}

// SelfCheck replays the default execution of a scenario twice and demands
// identical observations (trace and verdict). reset, if not nil, is called
// before each replay to clear memoisation.
func (r *R) SelfCheck(t *testing.T, sc Scenario, reset func()) {
	e := &explore.Explorer{Scenario: sc.Name, Bound: 0, Body: sc.Body, Wrap: sc.Wrap, OnCut: sc.OnCut}
	sig := func(f *explore.Failure) string {
		if f == nil {
			return ""
		}
		return f.Signature
	}
	r.mute(true)
	defer r.mute(false)
	if reset != nil {
		reset()
	}
	r1, f1 := e.Replay(nil)
	if reset != nil {
		reset()
	}
	r2, f2 := e.Replay(nil)
	if reset != nil {
		reset()
	}
	if sig(f1) != sig(f2) || strings.Join(r1.Trace, "\n") != strings.Join(r2.Trace, "\n") || fmt.Sprint(r1.Choices) != fmt.Sprint(r2.Choices) {
		t.Fatalf("determinism self check failed for %s: verdicts %q / %q, traces equal=%v", sc.Name, sig(f1), sig(f2), strings.Join(r1.Trace, "\n") == strings.Join(r2.Trace, "\n"))
	}
	r.Determinism(fmt.Sprintf("default execution of %s replayed twice: identical traces (%d events, %d points) and verdicts", sc.Name, len(r1.Trace), len(r1.Points)))
}
