package report

import (
	"testing"
	"testing/synctest"
)

// Bubble returns a Wrap function that runs each execution inside a
// testing/synctest bubble: time is virtual (every execution starts at the
// same instant and sleeps are free), so no observation depends on the wall
// clock.
func Bubble(t *testing.T) func(fn func()) {
	return func(fn func()) {
		var p any
		synctest.Test(t, func(*testing.T) {
			defer func() { p = recover() }()
			fn()
		})
		if p != nil {
			panic(p)
		}
	}
}

// Settle waits until every goroutine of the bubble is durably blocked.
func Settle() { synctest.Wait() }
