package report

import (
	"testing"
	"testing/synctest"
	"time"
)

// Bubble returns a Wrap function that runs each execution inside a
// testing/synctest bubble: time is virtual (every execution starts at the
// same instant and sleeps are free), so no observation depends on the wall
// clock.
func Bubble(t *testing.T) func(fn func()) {
	return func(fn func()) {
		var p any
		synctest.Test(t, func(*testing.T) {
			defer func() {
				p = recover()
				// Fake time stops when this goroutine exits: let goroutines
				// the code under test left sleeping (a retry back-off in a
				// thread of a cut execution, say) run out first.
				DrainTimers()
			}()
			fn()
		})
		if p != nil {
			panic(p)
		}
	}
}

// DrainTimers is an OnCut function for bubbles: fake time stops when the
// bubble's main goroutine exits, so goroutines the code under test left
// sleeping on a short timer are given time to run out first.
func DrainTimers() { time.Sleep(10 * time.Second) }

// Settle waits until every goroutine of the bubble is durably blocked.
func Settle() { synctest.Wait() }
