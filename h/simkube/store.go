// Package simkube is a small, deterministic, fault-injecting model of the
// Kubernetes API server: an object store that implements controller-runtime's
// client.Client with the API conventions Crossplane's reconcilers rely on
// (optimistic concurrency, status subresource, finalizers and graceful
// deletion, owner reference validation, JSON merge / JSON patch and real
// server-side apply via structured-merge-diff). Every call passes a fault
// injector so that an explorer decides which call fails, and how.
package simkube

import (
	"encoding/json"
	"fmt"
	"reflect"
	"sort"
	"strconv"
	"strings"
	"sync"
	"time"

	kerrors "k8s.io/apimachinery/pkg/api/errors"
	apivalidation "k8s.io/apimachinery/pkg/api/validation"
	metav1 "k8s.io/apimachinery/pkg/apis/meta/v1"
	"k8s.io/apimachinery/pkg/apis/meta/v1/unstructured"
	"k8s.io/apimachinery/pkg/runtime"
	"k8s.io/apimachinery/pkg/runtime/schema"
	"k8s.io/apimachinery/pkg/types"
	"k8s.io/apimachinery/pkg/util/validation/field"
)

// ObjKey identifies a stored object (all versions of a kind share storage).
type ObjKey struct {
	Group, Kind, Namespace, Name string
}

func (k ObjKey) String() string {
	s := k.Kind
	if k.Group != "" {
		s += "." + k.Group
	}
	if k.Namespace != "" {
		return s + "/" + k.Namespace + "/" + k.Name
	}
	return s + "/" + k.Name
}

// GK of the key.
func (k ObjKey) GK() schema.GroupKind { return schema.GroupKind{Group: k.Group, Kind: k.Kind} }

// KeyOf an unstructured object.
func KeyOf(u *unstructured.Unstructured) ObjKey {
	gvk := u.GroupVersionKind()
	return ObjKey{Group: gvk.Group, Kind: gvk.Kind, Namespace: u.GetNamespace(), Name: u.GetName()}
}

// Outcome of a call as decided by the fault injector.
type Outcome int

// Outcomes.
const (
	OK          Outcome = iota
	ErrBefore           // server error / timeout, no effect
	Conflict            // 409, no effect (writes only)
	ErrAfter            // effect applied, error returned
	CrashBefore         // process dies before the call takes effect
	CrashAfter          // process dies after the call took effect, before the reply
	NotFound            // 404, no effect: a read answered by a cache that has not seen the object (yet / any more), or a kind that is not served at the moment
)

func (o Outcome) String() string {
	return [...]string{"ok", "error-before", "conflict", "error-after", "crash-before", "crash-after", "not-found"}[o]
}

// Call describes one API call.
type Call struct {
	Seq    int
	Verb   string // get list create update patch apply delete deleteallof
	Sub    string // "" or "status"
	Key    ObjKey
	DryRun bool
	Write  bool
	Client string
}

func (c Call) String() string {
	v := c.Verb
	if c.Sub != "" {
		v += "/" + c.Sub
	}
	if c.DryRun {
		v += "(dry)"
	}
	return v + " " + c.Key.String()
}

// Injector decides the outcome of each call.
type Injector interface {
	Decide(c Call) Outcome
}

// InjectorFn adapts a function.
type InjectorFn func(c Call) Outcome

// Decide implements Injector.
func (f InjectorFn) Decide(c Call) Outcome { return f(c) }

// Crash is the panic value used to abort a reconcile at a crash point.
type Crash struct{ Call Call }

// WriteRecord is one entry of the write log.
type WriteRecord struct {
	Call      Call
	Err       string
	Effective bool // the stored state changed
	Deleted   bool // the object was removed from the store by this call
	Before    *unstructured.Unstructured
	After     *unstructured.Unstructured
}

// AdmissionOp is passed to admission functions.
type AdmissionOp struct {
	Verb    string // CREATE UPDATE DELETE
	Sub     string
	Key     ObjKey
	Version string // API version of the request
	Old     *unstructured.Unstructured
	New     *unstructured.Unstructured
	DryRun  bool
	Options map[string]any
	Client  string
}

type entry struct {
	obj     *unstructured.Unstructured
	history []*unstructured.Unstructured // previous versions, oldest first (for cache lag)
}

// Store is the API server model.
type Store struct {
	mu      sync.Mutex
	objs    map[ObjKey]*entry
	rv      int64
	uidN    int
	nameN   int
	seq     int
	Scheme  *runtime.Scheme
	Inj     Injector
	Log     []WriteRecord
	Reads   int
	noStat  map[schema.GroupKind]bool
	Admit   []func(op *AdmissionOp) error
	OnWrite []func(rec *WriteRecord)
	// NoMatch lists kinds the server does not serve (CRD absent).
	NoMatch map[schema.GroupKind]bool
	// Namespaced kinds (only used by IsObjectNamespaced).
	NamespacedKinds map[schema.GroupKind]bool
	indexes         map[schema.GroupKind]map[string]indexer
	Now             func() time.Time
	HistoryDepth    int
	DefaultManager  string
	poisoned        map[string]bool
	admitting       int
	// ErrBeforeFn, if set, chooses the error an injected error-before outcome
	// returns (nil: the default internal server error) - e.g. a 404 for a
	// list of a kind whose CRD is being replaced.
	ErrBeforeFn func(c Call) error
	// DeleteFinalizers lists, per kind, finalizers the API server itself adds
	// to an object when its deletion is first requested (as the
	// apiextensions API server does for CustomResourceDefinitions with
	// customresourcecleanup.apiextensions.k8s.io). Whoever models the
	// corresponding controller removes them.
	DeleteFinalizers map[schema.GroupKind][]string
	// graveyard keeps the last versions of removed objects, so that a lagging
	// cache can still serve an object the store has already deleted.
	graveyard map[ObjKey][]*unstructured.Unstructured
}

// New returns an empty store.
func New(s *runtime.Scheme) *Store {
	return &Store{
		objs:            map[ObjKey]*entry{},
		Scheme:          s,
		noStat:          map[schema.GroupKind]bool{},
		NoMatch:         map[schema.GroupKind]bool{},
		NamespacedKinds: map[schema.GroupKind]bool{},
		indexes:         map[schema.GroupKind]map[string]indexer{},
		Now:             time.Now,
		HistoryDepth:    4,
		DefaultManager:  "crossplane",
		poisoned:        map[string]bool{},
		graveyard:       map[ObjKey][]*unstructured.Unstructured{},

		DeleteFinalizers: map[schema.GroupKind][]string{},
	}
}

// NoStatusSubresource declares that a kind has no status subresource.
func (s *Store) NoStatusSubresource(gk schema.GroupKind) { s.noStat[gk] = true }

func (s *Store) hasStatus(gk schema.GroupKind) bool { return !s.noStat[gk] }

// Poison makes every later call of the named client fail without effect
// (used for helper goroutines of a crashed incarnation).
func (s *Store) Poison(client string) { s.mu.Lock(); s.poisoned[client] = true; s.mu.Unlock() }

func deepCopy(u *unstructured.Unstructured) *unstructured.Unstructured {
	if u == nil {
		return nil
	}
	return u.DeepCopy()
}

func (s *Store) nextRV() string {
	s.rv++
	return strconv.FormatInt(s.rv, 10)
}

func (s *Store) nextUID() types.UID {
	s.uidN++
	return types.UID(fmt.Sprintf("uid-%04d", s.uidN))
}

func (s *Store) now() metav1.Time {
	return metav1.Time{Time: s.Now().Truncate(time.Second)}
}

// Seed inserts an object as is (status included), assigning uid,
// resourceVersion and creationTimestamp if missing. It bypasses faults,
// admission and the write log.
func (s *Store) Seed(objs ...runtime.Object) {
	for _, o := range objs {
		u, err := s.toU(o)
		if err != nil {
			panic(err)
		}
		s.mu.Lock()
		if u.GetUID() == "" {
			u.SetUID(s.nextUID())
		}
		u.SetResourceVersion(s.nextRV())
		if ts := u.GetCreationTimestamp(); ts.IsZero() {
			u.SetCreationTimestamp(s.now())
		}
		if u.GetGeneration() == 0 {
			u.SetGeneration(1)
		}
		s.objs[KeyOf(u)] = &entry{obj: u}
		s.mu.Unlock()
		// Reflect server-assigned fields into typed inputs too.
		_ = s.fromU(u, o)
	}
}

// Peek returns a copy of the stored object or nil.
func (s *Store) Peek(k ObjKey) *unstructured.Unstructured {
	s.mu.Lock()
	defer s.mu.Unlock()
	if e, ok := s.objs[k]; ok {
		return deepCopy(e.obj)
	}
	return nil
}

// PeekInto loads a stored object into a typed or unstructured object; false
// if absent.
func (s *Store) PeekInto(k ObjKey, into runtime.Object) bool {
	u := s.Peek(k)
	if u == nil {
		return false
	}
	if err := s.fromU(u, into); err != nil {
		panic(err)
	}
	return true
}

// PeekIntoU converts an unstructured object (a WriteRecord's Before / After,
// say) into a typed one; false if u is nil.
func (s *Store) PeekIntoU(u *unstructured.Unstructured, into runtime.Object) bool {
	if u == nil {
		return false
	}
	if err := s.fromU(u, into); err != nil {
		panic(err)
	}
	return true
}

// Remove deletes an object immediately regardless of finalizers (harness
// use: a third party forcibly removing something).
func (s *Store) Remove(k ObjKey) {
	s.mu.Lock()
	defer s.mu.Unlock()
	delete(s.objs, k)
}

// Mutate applies fn to the stored object as an external actor (a user edit
// or a third-party controller): bumps the resourceVersion if anything
// changed; removes the object if it is terminating without finalizers.
func (s *Store) Mutate(k ObjKey, fn func(u *unstructured.Unstructured)) bool {
	s.mu.Lock()
	defer s.mu.Unlock()
	e, ok := s.objs[k]
	if !ok {
		return false
	}
	n := deepCopy(e.obj)
	fn(n)
	if reflect.DeepEqual(n.Object, e.obj.Object) {
		return false
	}
	s.commit(k, e, n)
	return true
}

// commit stores n as the new version of e (caller holds the lock).
func (s *Store) commit(k ObjKey, e *entry, n *unstructured.Unstructured) (deleted bool) {
	if n.GetDeletionTimestamp() != nil && len(n.GetFinalizers()) == 0 {
		s.bury(k, e)
		delete(s.objs, k)
		return true
	}
	if specChanged(e.obj, n) {
		n.SetGeneration(e.obj.GetGeneration() + 1)
	}
	n.SetResourceVersion(s.nextRV())
	e.history = append(e.history, e.obj)
	if len(e.history) > s.HistoryDepth {
		e.history = e.history[len(e.history)-s.HistoryDepth:]
	}
	e.obj = n
	return false
}

func specChanged(a, b *unstructured.Unstructured) bool {
	strip := func(u *unstructured.Unstructured) map[string]any {
		m := map[string]any{}
		for k, v := range u.Object {
			if k == "metadata" || k == "status" {
				continue
			}
			m[k] = v
		}
		return m
	}
	return !reflect.DeepEqual(strip(a), strip(b))
}

// Keys returns all keys, sorted.
func (s *Store) Keys() []ObjKey {
	s.mu.Lock()
	defer s.mu.Unlock()
	return s.keysLocked()
}

func (s *Store) keysLocked() []ObjKey {
	ks := make([]ObjKey, 0, len(s.objs))
	for k := range s.objs {
		ks = append(ks, k)
	}
	sort.Slice(ks, func(i, j int) bool { return ks[i].String() < ks[j].String() })
	return ks
}

// All returns copies of all objects of a group/kind (any namespace), sorted.
func (s *Store) All(gk schema.GroupKind) []*unstructured.Unstructured {
	s.mu.Lock()
	defer s.mu.Unlock()
	var out []*unstructured.Unstructured
	for _, k := range s.keysLocked() {
		if k.GK() == gk {
			out = append(out, deepCopy(s.objs[k].obj))
		}
	}
	return out
}

// Everything returns copies of all objects, sorted by key.
func (s *Store) Everything() []*unstructured.Unstructured {
	s.mu.Lock()
	defer s.mu.Unlock()
	var out []*unstructured.Unstructured
	for _, k := range s.keysLocked() {
		out = append(out, deepCopy(s.objs[k].obj))
	}
	return out
}

// UIDExists reports whether any stored object has the uid.
func (s *Store) UIDExists(uid types.UID) bool {
	s.mu.Lock()
	defer s.mu.Unlock()
	return s.uidExistsLocked(uid)
}

func (s *Store) uidExistsLocked(uid types.UID) bool {
	for _, e := range s.objs {
		if e.obj.GetUID() == uid {
			return true
		}
	}
	return false
}

// Versions returns the resourceVersion of every object: a cheap fingerprint
// for "nothing changed".
func (s *Store) Versions() map[ObjKey]string {
	s.mu.Lock()
	defer s.mu.Unlock()
	m := map[ObjKey]string{}
	for k, e := range s.objs {
		m[k] = e.obj.GetResourceVersion()
	}
	return m
}

// Canonical returns a deterministic rendering of the whole store without
// the fields no property observes and that differ between equivalent
// executions (resourceVersion, managedFields timestamps, time stamps).
func (s *Store) Canonical(drop ...string) string {
	s.mu.Lock()
	defer s.mu.Unlock()
	var b strings.Builder
	for _, k := range s.keysLocked() {
		o := deepCopy(s.objs[k].obj)
		canonicalize(o)
		j, _ := json.Marshal(o.Object)
		b.WriteString(k.String())
		b.WriteString("=")
		b.Write(j)
		b.WriteString("\n")
	}
	return b.String()
}

func canonicalize(o *unstructured.Unstructured) {
	o.SetResourceVersion("")
	o.SetGeneration(0)
	mf := o.GetManagedFields()
	for i := range mf {
		mf[i].Time = nil
	}
	o.SetManagedFields(mf)
	unstructured.RemoveNestedField(o.Object, "metadata", "creationTimestamp")
	if o.GetDeletionTimestamp() != nil {
		_ = unstructured.SetNestedField(o.Object, "T", "metadata", "deletionTimestamp")
	}
	scrubTimes(o.Object)
}

func scrubTimes(v any) {
	switch t := v.(type) {
	case map[string]any:
		for k, vv := range t {
			if k == "lastTransitionTime" || k == "lastPublishedTime" || k == "lastProbeTime" || k == "lastUpdateTime" {
				t[k] = "T"
				continue
			}
			scrubTimes(vv)
		}
	case []any:
		for _, vv := range t {
			scrubTimes(vv)
		}
	}
}

func (s *Store) validateMeta(u *unstructured.Unstructured) error {
	errs := apivalidation.ValidateOwnerReferences(u.GetOwnerReferences(), field.NewPath("metadata", "ownerReferences"))
	errs = append(errs, apivalidation.ValidateFinalizers(u.GetFinalizers(), field.NewPath("metadata", "finalizers"))...)
	if u.GetName() == "" {
		errs = append(errs, field.Required(field.NewPath("metadata", "name"), "name or generateName is required"))
	}
	if len(errs) > 0 {
		gvk := u.GroupVersionKind()
		return kerrors.NewInvalid(gvk.GroupKind(), u.GetName(), errs)
	}
	return nil
}

func gr(k ObjKey) schema.GroupResource {
	return schema.GroupResource{Group: k.Group, Resource: strings.ToLower(k.Kind) + "s"}
}

func dedupOwners(u *unstructured.Unstructured) {
	refs := u.GetOwnerReferences()
	if len(refs) < 2 {
		return
	}
	seen := map[types.UID]bool{}
	out := refs[:0]
	for _, r := range refs {
		if seen[r.UID] {
			continue
		}
		seen[r.UID] = true
		out = append(out, r)
	}
	u.SetOwnerReferences(out)
}

// Clone returns an independent deep copy of the store's objects, counters
// and configuration (not its write log, hooks or injector).
func (s *Store) Clone() *Store {
	s.mu.Lock()
	defer s.mu.Unlock()
	n := New(s.Scheme)
	for k, e := range s.objs {
		ne := &entry{obj: deepCopy(e.obj)}
		for _, h := range e.history {
			ne.history = append(ne.history, deepCopy(h))
		}
		n.objs[k] = ne
	}
	for k, h := range s.graveyard {
		for _, o := range h {
			n.graveyard[k] = append(n.graveyard[k], deepCopy(o))
		}
	}
	n.rv, n.uidN, n.nameN = s.rv, s.uidN, s.nameN
	for k, v := range s.noStat {
		n.noStat[k] = v
	}
	for k, v := range s.NoMatch {
		n.NoMatch[k] = v
	}
	for k, v := range s.NamespacedKinds {
		n.NamespacedKinds[k] = v
	}
	for k, v := range s.DeleteFinalizers {
		n.DeleteFinalizers[k] = v
	}
	for k, v := range s.indexes {
		n.indexes[k] = map[string]indexer{}
		for f, ix := range v {
			n.indexes[k][f] = ix
		}
	}
	n.Now, n.HistoryDepth, n.DefaultManager = s.Now, s.HistoryDepth, s.DefaultManager
	n.Admit = append(n.Admit, s.Admit...)
	return n
}

// bury remembers the history of an object that is being removed.
func (s *Store) bury(k ObjKey, e *entry) {
	h := append(append([]*unstructured.Unstructured{}, e.history...), e.obj)
	if len(h) > s.HistoryDepth {
		h = h[len(h)-s.HistoryDepth:]
	}
	s.graveyard[k] = h
}
