package simkube

import (
	"k8s.io/apimachinery/pkg/runtime/schema"
	"k8s.io/apimachinery/pkg/api/meta"
	"strings"
	"sort"
	"strconv"
	"context"
	"fmt"

	kerrors "k8s.io/apimachinery/pkg/api/errors"
	metav1 "k8s.io/apimachinery/pkg/apis/meta/v1"
	"k8s.io/apimachinery/pkg/apis/meta/v1/unstructured"
	"k8s.io/apimachinery/pkg/runtime"
	"sigs.k8s.io/controller-runtime/pkg/client"
)

// GCAction is one step the Kubernetes garbage collector could take now.
type GCAction struct {
	Kind string // "collect" (delete a dependent whose owners are all gone), "fg-dependent" (delete a dependent of a foreground-deleting owner), "fg-finish" (remove foregroundDeletion), "orphan-finish"
	Key  ObjKey
}

func (a GCAction) String() string { return a.Kind + " " + a.Key.String() }

// GCActions lists the garbage collector steps that are enabled in the current
// state, in deterministic order. The garbage collector is never run
// implicitly: explorers take these steps as events.
func (s *Store) GCActions() []GCAction {
	s.mu.Lock()
	defer s.mu.Unlock()
	var out []GCAction
	for _, k := range s.keysLocked() {
		o := s.objs[k].obj
		refs := o.GetOwnerReferences()
		if len(refs) > 0 && o.GetDeletionTimestamp() == nil {
			allGone, anyFG := true, false
			for _, r := range refs {
				if ow := s.byUIDLocked(string(r.UID)); ow != nil {
					allGone = false
					if ow.GetDeletionTimestamp() != nil && contains(ow.GetFinalizers(), metav1.FinalizerDeleteDependents) && r.BlockOwnerDeletion != nil && *r.BlockOwnerDeletion {
						anyFG = true
					}
				}
			}
			if allGone {
				out = append(out, GCAction{"collect", k})
			} else if anyFG {
				out = append(out, GCAction{"fg-dependent", k})
			}
		}
		if o.GetDeletionTimestamp() != nil && contains(o.GetFinalizers(), metav1.FinalizerDeleteDependents) {
			blocking := false
			for _, e := range s.objs {
				for _, r := range e.obj.GetOwnerReferences() {
					if r.UID == o.GetUID() && r.BlockOwnerDeletion != nil && *r.BlockOwnerDeletion {
						blocking = true
					}
				}
			}
			if !blocking {
				out = append(out, GCAction{"fg-finish", k})
			}
		}
		if o.GetDeletionTimestamp() != nil && contains(o.GetFinalizers(), metav1.FinalizerOrphanDependents) {
			out = append(out, GCAction{"orphan-finish", k})
		}
	}
	return out
}

func (s *Store) byUIDLocked(uid string) *unstructured.Unstructured {
	for _, e := range s.objs {
		if string(e.obj.GetUID()) == uid {
			return e.obj
		}
	}
	return nil
}

// GCApply takes one garbage collector step. Deletions go through the normal
// delete path (finalizers are honoured) with background propagation, under
// the client name "gc"; they are not fault points.
func (s *Store) GCApply(a GCAction) {
	switch a.Kind {
	case "collect", "fg-dependent":
		u := s.Peek(a.Key)
		if u == nil {
			return
		}
		rec := &WriteRecord{}
		call := Call{Verb: "delete", Key: a.Key, Write: true, Client: "gc"}
		err := s.delete(u.GroupVersionKind(), call, client.DeleteOptions{}, rec)
		rec.Call = call
		if err != nil {
			rec.Err = err.Error()
		}
		s.logWrite(rec)
	case "fg-finish", "orphan-finish":
		fin := metav1.FinalizerDeleteDependents
		if a.Kind == "orphan-finish" {
			fin = metav1.FinalizerOrphanDependents
			// Orphaning strips the owner reference from dependents.
			if owner := s.Peek(a.Key); owner != nil {
				for _, k := range s.Keys() {
					s.Mutate(k, func(u *unstructured.Unstructured) {
						refs := u.GetOwnerReferences()
						out := refs[:0]
						for _, r := range refs {
							if r.UID != owner.GetUID() {
								out = append(out, r)
							}
						}
						if len(out) != len(refs) {
							u.SetOwnerReferences(out)
						}
					})
				}
			}
		}
		s.Mutate(a.Key, func(u *unstructured.Unstructured) {
			fs := u.GetFinalizers()
			out := fs[:0]
			for _, f := range fs {
				if f != fin {
					out = append(out, f)
				}
			}
			u.SetFinalizers(out)
		})
	}
}

// GCRun runs the garbage collector to a fixpoint (bounded).
func (s *Store) GCRun() int {
	n := 0
	for i := 0; i < 100; i++ {
		as := s.GCActions()
		if len(as) == 0 {
			return n
		}
		s.GCApply(as[0])
		n++
	}
	return n
}

// Lagging returns a reader whose Get returns, per object, a version chosen
// by pick from the object's recent history (0 = current, i = i versions
// ago, capped at what exists; an object that did not exist that long ago
// reads as NotFound). List is served from current state. It models an
// informer cache that lags the store.
func (s *Store) Lagging(name string, pick func(k ObjKey, available int) int) client.Reader {
	return &lagReader{c: s.Client(name), pick: pick}
}

type lagReader struct {
	c    *Client
	pick func(k ObjKey, available int) int
	// pickList, if set, chooses how many writes to objects of the listed
	// kind the cache has not seen yet (0 = current).
	pickList func(gk schema.GroupKind, available int) int
}

// LaggingLists is Lagging whose List, too, may be served from the past: the
// cache of a kind is a consistent snapshot that misses the last n writes to
// objects of that kind (n chosen by pickList; removals are not modelled: a
// removed object is absent from every snapshot).
func (s *Store) LaggingLists(name string, pick func(k ObjKey, available int) int, pickList func(gk schema.GroupKind, available int) int) client.Reader {
	return &lagReader{c: s.Client(name), pick: pick, pickList: pickList}
}

func (l *lagReader) Get(ctx context.Context, key client.ObjectKey, obj client.Object, opts ...client.GetOption) error {
	s := l.c.S
	gvk, err := s.gvkOf(obj)
	if err != nil {
		return err
	}
	k := ObjKey{Group: gvk.Group, Kind: gvk.Kind, Namespace: key.Namespace, Name: key.Name}
	s.mu.Lock()
	e, ok := s.objs[k]
	var hist []*unstructured.Unstructured
	if ok {
		hist = append(hist, e.history...)
	} else {
		// The object was removed: a lagging cache may still hold it.
		hist = append(hist, s.graveyard[k]...)
	}
	s.mu.Unlock()
	if len(hist) == 0 {
		return l.c.Get(ctx, key, obj, opts...)
	}
	i := l.pick(k, len(hist))
	if i <= 0 {
		return l.c.Get(ctx, key, obj, opts...)
	}
	if i > len(hist) {
		return kerrors.NewNotFound(gr(k), k.Name)
	}
	u := deepCopy(hist[len(hist)-i])
	u.SetGroupVersionKind(gvk)
	return s.fromU(u, obj)
}

func (l *lagReader) List(ctx context.Context, list client.ObjectList, opts ...client.ListOption) error {
	if l.pickList == nil {
		return l.c.List(ctx, list, opts...)
	}
	s := l.c.S
	gvk, err := s.gvkOf(list)
	if err != nil {
		return err
	}
	gk := schema.GroupKind{Group: gvk.Group, Kind: strings.TrimSuffix(gvk.Kind, "List")}
	// The resource versions at which objects of the kind were written.
	s.mu.Lock()
	var rvs []int
	versions := map[ObjKey][]*unstructured.Unstructured{}
	for k, e := range s.objs {
		if k.GK() != gk {
			continue
		}
		vs := append(append([]*unstructured.Unstructured{}, e.history...), e.obj)
		versions[k] = vs
		for _, v := range vs {
			n, _ := strconv.Atoi(v.GetResourceVersion())
			rvs = append(rvs, n)
		}
	}
	s.mu.Unlock()
	sort.Ints(rvs)
	n := l.pickList(gk, len(rvs))
	if n <= 0 || len(rvs) == 0 {
		return l.c.List(ctx, list, opts...)
	}
	cutoff := -1
	if n < len(rvs) {
		cutoff = rvs[len(rvs)-1-n]
	}
	// Serve the current List (selectors and all), then swap each item for
	// its version as of the cutoff, dropping those that did not exist yet.
	if err := l.c.List(ctx, list, opts...); err != nil {
		return err
	}
	items, err := meta.ExtractList(list)
	if err != nil {
		return err
	}
	var out []runtime.Object
	for _, it := range items {
		o, ok := it.(client.Object)
		if !ok {
			continue
		}
		k := ObjKey{Group: gk.Group, Kind: gk.Kind, Namespace: o.GetNamespace(), Name: o.GetName()}
		var old *unstructured.Unstructured
		for _, v := range versions[k] {
			if rv, _ := strconv.Atoi(v.GetResourceVersion()); rv <= cutoff {
				old = v
			}
		}
		if old == nil {
			continue
		}
		u := deepCopy(old)
		u.SetGroupVersionKind(schema.GroupVersionKind{Group: gvk.Group, Version: gvk.Version, Kind: gk.Kind})
		into := it.DeepCopyObject()
		if err := s.fromU(u, into); err != nil {
			return err
		}
		out = append(out, into)
	}
	return meta.SetList(list, out)
}

// MustU converts any object to unstructured using the store's scheme.
func (s *Store) MustU(o runtime.Object) *unstructured.Unstructured {
	u, err := s.toU(o)
	if err != nil {
		panic(fmt.Sprintf("MustU: %v", err))
	}
	return u
}
