package simkube

import (
	"context"
	"fmt"
	"testing"

	corev1 "k8s.io/api/core/v1"
	kerrors "k8s.io/apimachinery/pkg/api/errors"
	metav1 "k8s.io/apimachinery/pkg/apis/meta/v1"
	"k8s.io/apimachinery/pkg/apis/meta/v1/unstructured"
	"k8s.io/apimachinery/pkg/runtime"
	"k8s.io/apimachinery/pkg/types"
	"k8s.io/utils/ptr"
	"sigs.k8s.io/controller-runtime/pkg/client"
)

func scheme() *runtime.Scheme {
	s := runtime.NewScheme()
	_ = corev1.AddToScheme(s)
	return s
}

func cr(name string) *unstructured.Unstructured {
	u := &unstructured.Unstructured{Object: map[string]any{
		"apiVersion": "example.org/v1", "kind": "Thing",
		"metadata": map[string]any{"name": name},
		"spec":     map[string]any{"a": "1"},
	}}
	return u
}

var ctx = context.Background()

func TestCreateGetUpdateConflict(t *testing.T) {
	s := New(scheme())
	c := s.Client("t")
	o := cr("x")
	if err := c.Create(ctx, o); err != nil {
		t.Fatal(err)
	}
	if o.GetUID() == "" || o.GetResourceVersion() == "" || o.GetCreationTimestamp().Time.IsZero() {
		t.Fatalf("server fields not set: %v", o.Object)
	}
	if err := c.Create(ctx, cr("x")); !kerrors.IsAlreadyExists(err) {
		t.Fatalf("want AlreadyExists, got %v", err)
	}
	withRV := cr("y")
	withRV.SetResourceVersion("5")
	if err := c.Create(ctx, withRV); !kerrors.IsBadRequest(err) {
		t.Fatalf("want BadRequest for rv on create, got %v", err)
	}
	stale := o.DeepCopy()
	_ = unstructured.SetNestedField(o.Object, "2", "spec", "a")
	if err := c.Update(ctx, o); err != nil {
		t.Fatal(err)
	}
	if o.GetResourceVersion() == stale.GetResourceVersion() {
		t.Fatal("rv not bumped")
	}
	if o.GetGeneration() != 2 {
		t.Fatalf("generation = %d", o.GetGeneration())
	}
	_ = unstructured.SetNestedField(stale.Object, "3", "spec", "a")
	if err := c.Update(ctx, stale); !kerrors.IsConflict(err) {
		t.Fatalf("want conflict, got %v", err)
	}
	// No-op update keeps the resourceVersion.
	rv := o.GetResourceVersion()
	if err := c.Update(ctx, o); err != nil {
		t.Fatal(err)
	}
	if o.GetResourceVersion() != rv {
		t.Fatalf("no-op update bumped rv %s -> %s", rv, o.GetResourceVersion())
	}
	// UID mismatch on update is a conflict.
	bad := o.DeepCopy()
	bad.SetUID("other")
	if err := c.Update(ctx, bad); !kerrors.IsConflict(err) {
		t.Fatalf("want conflict on uid mismatch, got %v", err)
	}
	got := cr("x")
	if err := c.Get(ctx, types.NamespacedName{Name: "x"}, got); err != nil {
		t.Fatal(err)
	}
	if v, _, _ := unstructured.NestedString(got.Object, "spec", "a"); v != "2" {
		t.Fatalf("spec.a = %q", v)
	}
	if err := c.Get(ctx, types.NamespacedName{Name: "nope"}, cr("")); !kerrors.IsNotFound(err) {
		t.Fatalf("want NotFound, got %v", err)
	}
}

func TestStatusSubresource(t *testing.T) {
	s := New(scheme())
	c := s.Client("t")
	o := cr("x")
	o.Object["status"] = map[string]any{"s": "ignored"}
	if err := c.Create(ctx, o); err != nil {
		t.Fatal(err)
	}
	if _, ok := o.Object["status"]; ok {
		t.Fatal("status kept on create")
	}
	o.Object["status"] = map[string]any{"s": "1"}
	_ = unstructured.SetNestedField(o.Object, "9", "spec", "a")
	if err := c.Status().Update(ctx, o); err != nil {
		t.Fatal(err)
	}
	st := s.Peek(KeyOf(o))
	if v, _, _ := unstructured.NestedString(st.Object, "spec", "a"); v != "1" {
		t.Fatalf("status update changed spec: %v", v)
	}
	if v, _, _ := unstructured.NestedString(st.Object, "status", "s"); v != "1" {
		t.Fatalf("status not stored: %v", st.Object)
	}
	o.Object["status"] = map[string]any{"s": "2"}
	_ = unstructured.SetNestedField(o.Object, "7", "spec", "a")
	if err := c.Update(ctx, o); err != nil {
		t.Fatal(err)
	}
	st = s.Peek(KeyOf(o))
	if v, _, _ := unstructured.NestedString(st.Object, "status", "s"); v != "1" {
		t.Fatalf("main update changed status: %v", st.Object)
	}
	if v, _, _ := unstructured.NestedString(st.Object, "spec", "a"); v != "7" {
		t.Fatalf("spec not updated")
	}
}

func TestFinalizersAndDeletion(t *testing.T) {
	s := New(scheme())
	c := s.Client("t")
	o := cr("x")
	o.SetFinalizers([]string{"example.org/f"})
	if err := c.Create(ctx, o); err != nil {
		t.Fatal(err)
	}
	if err := c.Delete(ctx, o); err != nil {
		t.Fatal(err)
	}
	got := cr("x")
	if err := c.Get(ctx, types.NamespacedName{Name: "x"}, got); err != nil {
		t.Fatal(err)
	}
	if got.GetDeletionTimestamp() == nil {
		t.Fatal("no deletionTimestamp")
	}
	got.SetFinalizers([]string{"example.org/f", "example.org/g"})
	if err := c.Update(ctx, got); !kerrors.IsInvalid(err) {
		t.Fatalf("want invalid for new finalizer on terminating object, got %v", err)
	}
	got.SetFinalizers(nil)
	got.SetDeletionTimestamp(nil) // cannot be cleared
	if err := c.Update(ctx, got); err != nil {
		t.Fatal(err)
	}
	if s.Peek(KeyOf(o)) != nil {
		t.Fatal("object not removed after last finalizer")
	}
	if err := c.Delete(ctx, o); !kerrors.IsNotFound(err) {
		t.Fatalf("want NotFound, got %v", err)
	}
	// Foreground.
	p := cr("p")
	_ = c.Create(ctx, p)
	if err := c.Delete(ctx, p, client.PropagationPolicy(metav1.DeletePropagationForeground)); err != nil {
		t.Fatal(err)
	}
	pp := s.Peek(KeyOf(p))
	if pp == nil || pp.GetDeletionTimestamp() == nil || pp.GetFinalizers()[0] != "foregroundDeletion" {
		t.Fatalf("foreground deletion wrong: %v", pp)
	}
	for _, a := range s.GCActions() {
		s.GCApply(a)
	}
	if s.Peek(KeyOf(p)) != nil {
		t.Fatal("foreground deletion did not finish")
	}
}

func TestOwnerReferences(t *testing.T) {
	s := New(scheme())
	c := s.Client("t")
	o := cr("x")
	o.SetOwnerReferences([]metav1.OwnerReference{
		{APIVersion: "v1", Kind: "A", Name: "a", UID: "1", Controller: ptr.To(true)},
		{APIVersion: "v1", Kind: "B", Name: "b", UID: "2", Controller: ptr.To(true)},
	})
	if err := c.Create(ctx, o); !kerrors.IsInvalid(err) {
		t.Fatalf("want invalid for two controllers, got %v", err)
	}
}

func TestMergeAndJSONPatch(t *testing.T) {
	s := New(scheme())
	c := s.Client("t")
	o := cr("x")
	_ = c.Create(ctx, o)
	created := o.GetCreationTimestamp()
	// Merge patch carrying the whole object with a null creationTimestamp.
	p := []byte(`{"apiVersion":"example.org/v1","kind":"Thing","metadata":{"name":"x","creationTimestamp":null,"labels":{"l":"1"}},"spec":{"b":"2"}}`)
	if err := c.Patch(ctx, o, client.RawPatch(types.MergePatchType, p)); err != nil {
		t.Fatal(err)
	}
	st := s.Peek(KeyOf(o))
	if ts := st.GetCreationTimestamp(); !ts.Equal(&created) {
		t.Fatalf("creationTimestamp changed")
	}
	if a, _, _ := unstructured.NestedString(st.Object, "spec", "a"); a != "1" {
		t.Fatal("merge patch dropped absent key")
	}
	if b, _, _ := unstructured.NestedString(st.Object, "spec", "b"); b != "2" {
		t.Fatal("merge patch did not add key")
	}
	// Stale resourceVersion in a merge patch conflicts.
	p = []byte(`{"metadata":{"resourceVersion":"1"},"spec":{"b":"3"}}`)
	if err := c.Patch(ctx, o, client.RawPatch(types.MergePatchType, p)); !kerrors.IsConflict(err) {
		t.Fatalf("want conflict, got %v", err)
	}
	// JSON patch optimistic lock.
	jp := []byte(fmt.Sprintf(`[{"op":"replace","path":"/metadata/resourceVersion","value":"%s"},{"op":"replace","path":"/spec/b","value":"4"}]`, st.GetResourceVersion()))
	if err := c.Patch(ctx, o, client.RawPatch(types.JSONPatchType, jp)); err != nil {
		t.Fatal(err)
	}
	if err := c.Patch(ctx, o, client.RawPatch(types.JSONPatchType, jp)); !kerrors.IsConflict(err) {
		t.Fatalf("want conflict on stale json patch, got %v", err)
	}
	// MergeFrom.
	orig := o.DeepCopy()
	o.SetAnnotations(map[string]string{"k": "v"})
	if err := c.Patch(ctx, o, client.MergeFrom(orig)); err != nil {
		t.Fatal(err)
	}
	if s.Peek(KeyOf(o)).GetAnnotations()["k"] != "v" {
		t.Fatal("MergeFrom patch not applied")
	}
}

func TestServerSideApply(t *testing.T) {
	s := New(scheme())
	c := s.Client("t")
	o := cr("x")
	o.SetOwnerReferences([]metav1.OwnerReference{{APIVersion: "v1", Kind: "A", Name: "a", UID: "1", Controller: ptr.To(true)}})
	_ = unstructured.SetNestedSlice(o.Object, []any{"p", "q"}, "spec", "list")
	if err := c.Patch(ctx, o, client.Apply, client.ForceOwnership, client.FieldOwner("m1")); err != nil {
		t.Fatal(err)
	}
	if o.GetUID() == "" {
		t.Fatal("apply did not create")
	}
	rv := o.GetResourceVersion()
	// Re-apply of the same intent is a no-op.
	again := cr("x")
	again.SetOwnerReferences(o.GetOwnerReferences())
	_ = unstructured.SetNestedSlice(again.Object, []any{"p", "q"}, "spec", "list")
	if err := c.Patch(ctx, again, client.Apply, client.ForceOwnership, client.FieldOwner("m1")); err != nil {
		t.Fatal(err)
	}
	if again.GetResourceVersion() != rv {
		t.Fatalf("idempotent apply bumped rv %s -> %s", rv, again.GetResourceVersion())
	}
	// Another manager adds an owner reference: merged by uid.
	other := &unstructured.Unstructured{Object: map[string]any{"apiVersion": "example.org/v1", "kind": "Thing", "metadata": map[string]any{"name": "x"}}}
	other.SetOwnerReferences([]metav1.OwnerReference{{APIVersion: "v1", Kind: "B", Name: "b", UID: "2"}})
	if err := c.Patch(ctx, other, client.Apply, client.ForceOwnership, client.FieldOwner("m2")); err != nil {
		t.Fatal(err)
	}
	if n := len(s.Peek(KeyOf(o)).GetOwnerReferences()); n != 2 {
		t.Fatalf("owner refs = %d, want 2", n)
	}
	// A second controller reference is refused.
	other = &unstructured.Unstructured{Object: map[string]any{"apiVersion": "example.org/v1", "kind": "Thing", "metadata": map[string]any{"name": "x"}}}
	other.SetOwnerReferences([]metav1.OwnerReference{{APIVersion: "v1", Kind: "B", Name: "b", UID: "2", Controller: ptr.To(true)}})
	if err := c.Patch(ctx, other, client.Apply, client.ForceOwnership, client.FieldOwner("m2")); !kerrors.IsInvalid(err) {
		t.Fatalf("want invalid for second controller, got %v", err)
	}
	// Lists are atomic: dropping an element from the applied list removes it;
	// dropping a field removes it.
	less := cr("x")
	delete(less.Object["spec"].(map[string]any), "a")
	_ = unstructured.SetNestedSlice(less.Object, []any{"q"}, "spec", "list")
	if err := c.Patch(ctx, less, client.Apply, client.ForceOwnership, client.FieldOwner("m1")); err != nil {
		t.Fatal(err)
	}
	st := s.Peek(KeyOf(o))
	if l, _, _ := unstructured.NestedSlice(st.Object, "spec", "list"); len(l) != 1 {
		t.Fatalf("list = %v", l)
	}
	if _, found, _ := unstructured.NestedString(st.Object, "spec", "a"); found {
		t.Fatal("field no longer applied was kept")
	}
	if n := len(st.GetOwnerReferences()); n != 1 {
		t.Fatalf("m1 stopped applying its owner ref: want 1 left (m2's), got %d", n)
	}
	// Apply with a uid for an object that does not exist conflicts.
	ghost := cr("ghost")
	ghost.SetUID("zzz")
	if err := c.Patch(ctx, ghost, client.Apply, client.ForceOwnership, client.FieldOwner("m1")); !kerrors.IsConflict(err) {
		t.Fatalf("want conflict, got %v", err)
	}
	// Status apply only touches status.
	stt := &unstructured.Unstructured{Object: map[string]any{"apiVersion": "example.org/v1", "kind": "Thing", "metadata": map[string]any{"name": "x"}, "spec": map[string]any{"zzz": "1"}, "status": map[string]any{"ok": true}}}
	if err := c.Status().Patch(ctx, stt, client.Apply, client.ForceOwnership, client.FieldOwner("m1")); err != nil {
		t.Fatal(err)
	}
	st = s.Peek(KeyOf(o))
	if _, found, _ := unstructured.NestedString(st.Object, "spec", "zzz"); found {
		t.Fatal("status apply wrote spec")
	}
	if ok, _, _ := unstructured.NestedBool(st.Object, "status", "ok"); !ok {
		t.Fatal("status apply lost")
	}
	if l, _, _ := unstructured.NestedSlice(st.Object, "spec", "list"); len(l) != 1 {
		t.Fatalf("status apply of same manager dropped spec fields: %v", st.Object)
	}
}

func TestManagedFieldsUpgradeFlow(t *testing.T) {
	s := New(scheme())
	c := s.Client("t")
	o := cr("x")
	_ = c.Create(ctx, o) // manager "crossplane", Update
	mf := s.Peek(KeyOf(o)).GetManagedFields()
	if len(mf) != 1 || mf[0].Manager != "crossplane" || mf[0].Operation != metav1.ManagedFieldsOperationUpdate {
		t.Fatalf("managedFields after create: %+v", mf)
	}
	p := []byte(fmt.Sprintf(`[{"op":"replace","path":"/metadata/managedFields","value":[{}]},{"op":"replace","path":"/metadata/resourceVersion","value":"%s"}]`, o.GetResourceVersion()))
	if err := c.Patch(ctx, o, client.RawPatch(types.JSONPatchType, p)); err != nil {
		t.Fatal(err)
	}
	if n := len(s.Peek(KeyOf(o)).GetManagedFields()); n != 0 {
		t.Fatalf("managedFields after reset: %d", n)
	}
	ap := cr("x")
	if err := c.Patch(ctx, ap, client.Apply, client.ForceOwnership, client.FieldOwner("ssa")); err != nil {
		t.Fatal(err)
	}
	names := map[string]bool{}
	for _, e := range s.Peek(KeyOf(o)).GetManagedFields() {
		names[e.Manager] = true
	}
	if !names["ssa"] || !names["before-first-apply"] {
		t.Fatalf("managers after first apply: %v", names)
	}
}

func TestTypedSecret(t *testing.T) {
	s := New(scheme())
	c := s.Client("t")
	sec := &corev1.Secret{ObjectMeta: metav1.ObjectMeta{Namespace: "ns", Name: "s"}, Data: map[string][]byte{"k": []byte("v")}}
	if err := c.Create(ctx, sec); err != nil {
		t.Fatal(err)
	}
	got := &corev1.Secret{}
	if err := c.Get(ctx, types.NamespacedName{Namespace: "ns", Name: "s"}, got); err != nil {
		t.Fatal(err)
	}
	if string(got.Data["k"]) != "v" || got.UID == "" {
		t.Fatalf("bad secret %+v", got)
	}
	l := &corev1.SecretList{}
	if err := c.List(ctx, l, client.InNamespace("ns")); err != nil || len(l.Items) != 1 {
		t.Fatalf("list: %v %d", err, len(l.Items))
	}
}

func TestFaultsAndCrash(t *testing.T) {
	s := New(scheme())
	c := s.Client("t")
	n := 0
	s.Inj = InjectorFn(func(cl Call) Outcome {
		n++
		switch n {
		case 1:
			return ErrAfter
		case 2:
			return CrashAfter
		}
		return OK
	})
	o := cr("x")
	if err := c.Create(ctx, o); err == nil {
		t.Fatal("want error")
	}
	if s.Peek(KeyOf(o)) == nil {
		t.Fatal("error-after must apply the effect")
	}
	func() {
		defer func() {
			if _, ok := recover().(Crash); !ok {
				t.Fatal("want crash")
			}
		}()
		_ = c.Create(ctx, cr("y"))
	}()
	if s.Peek(KeyOf(cr("y"))) == nil {
		t.Fatal("crash-after must apply the effect")
	}
}
