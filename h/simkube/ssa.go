package simkube

import (
	"fmt"
	"sync"

	"k8s.io/apimachinery/pkg/apis/meta/v1/unstructured"
	"k8s.io/apimachinery/pkg/runtime"
	"k8s.io/apimachinery/pkg/runtime/schema"
	"k8s.io/apimachinery/pkg/util/managedfields"
	"k8s.io/kube-openapi/pkg/validation/spec"
	"sigs.k8s.io/structured-merge-diff/v4/fieldpath"
)

// ssaManagers holds the real structured-merge-diff field managers for one
// GVK: one for the main resource and one for the status subresource.
type ssaManagers struct {
	main   *managedfields.FieldManager
	status *managedfields.FieldManager
}

// KindSchema optionally refines the generic object schema of a kind with the
// OpenAPI schemas of its spec and status (e.g. from a generated CRD).
type KindSchema struct {
	Spec, Status *spec.Schema
}

var kindSchemas = map[schema.GroupKind]KindSchema{}

// SetKindSchema registers spec/status schemas for server-side apply of a
// kind (process wide; schemas are static per check).
func SetKindSchema(gk schema.GroupKind, ks KindSchema) { kindSchemas[gk] = ks }

func strSchema() spec.Schema { return *spec.StringProperty() }

func preserveObj() spec.Schema {
	s := spec.Schema{SchemaProps: spec.SchemaProps{Type: []string{"object"}}}
	s.AddExtension("x-kubernetes-preserve-unknown-fields", true)
	return s
}

func metaSchema() spec.Schema {
	strMap := spec.Schema{SchemaProps: spec.SchemaProps{Type: []string{"object"}, AdditionalProperties: &spec.SchemaOrBool{Allows: true, Schema: spec.StringProperty()}}}
	fin := spec.Schema{SchemaProps: spec.SchemaProps{Type: []string{"array"}, Items: &spec.SchemaOrArray{Schema: spec.StringProperty()}}}
	fin.AddExtension("x-kubernetes-list-type", "set")
	boolS := spec.Schema{SchemaProps: spec.SchemaProps{Type: []string{"boolean"}}}
	owner := spec.Schema{SchemaProps: spec.SchemaProps{Type: []string{"object"}, Properties: map[string]spec.Schema{
		"apiVersion": strSchema(), "kind": strSchema(), "name": strSchema(), "uid": strSchema(),
		"controller": boolS, "blockOwnerDeletion": boolS,
	}, Required: []string{"apiVersion", "kind", "name", "uid"}}}
	owner.AddExtension("x-kubernetes-map-type", "atomic")
	owners := spec.Schema{SchemaProps: spec.SchemaProps{Type: []string{"array"}, Items: &spec.SchemaOrArray{Schema: &owner}}}
	owners.AddExtension("x-kubernetes-list-type", "map")
	owners.AddExtension("x-kubernetes-list-map-keys", []any{"uid"})
	intS := spec.Schema{SchemaProps: spec.SchemaProps{Type: []string{"integer"}, Format: "int64"}}
	mfItem := preserveObj()
	mf := spec.Schema{SchemaProps: spec.SchemaProps{Type: []string{"array"}, Items: &spec.SchemaOrArray{Schema: &mfItem}}}
	mf.AddExtension("x-kubernetes-list-type", "atomic")
	return spec.Schema{SchemaProps: spec.SchemaProps{Type: []string{"object"}, Properties: map[string]spec.Schema{
		"name": strSchema(), "namespace": strSchema(), "generateName": strSchema(), "uid": strSchema(),
		"resourceVersion": strSchema(), "generation": intS, "creationTimestamp": strSchema(),
		"deletionTimestamp": strSchema(), "deletionGracePeriodSeconds": intS, "selfLink": strSchema(),
		"labels": strMap, "annotations": strMap, "finalizers": fin, "ownerReferences": owners, "managedFields": mf,
	}}}
}

func schemaFor(gvk schema.GroupVersionKind) (string, map[string]*spec.Schema) {
	name := fmt.Sprintf("sim.%s.%s.%s", gvk.Group, gvk.Version, gvk.Kind)
	root := preserveObj()
	root.Properties = map[string]spec.Schema{
		"apiVersion": strSchema(), "kind": strSchema(), "metadata": metaSchema(),
	}
	if ks, ok := kindSchemas[gvk.GroupKind()]; ok {
		if ks.Spec != nil {
			root.Properties["spec"] = *ks.Spec
		}
		if ks.Status != nil {
			root.Properties["status"] = *ks.Status
		}
	}
	root.AddExtension("x-kubernetes-group-version-kind", []any{map[string]any{"group": gvk.Group, "version": gvk.Version, "kind": gvk.Kind}})
	return name, map[string]*spec.Schema{name: &root}
}

// trivialConvertor "converts" between versions of a kind by rewriting
// apiVersion only (all versions share one schema in this model).
type trivialConvertor struct{}

func (trivialConvertor) Convert(in, out, _ any) error {
	i, ok1 := in.(*unstructured.Unstructured)
	o, ok2 := out.(*unstructured.Unstructured)
	if !ok1 || !ok2 {
		return fmt.Errorf("trivialConvertor: unsupported %T -> %T", in, out)
	}
	o.Object = i.DeepCopy().Object
	return nil
}

func (trivialConvertor) ConvertToVersion(in runtime.Object, gv runtime.GroupVersioner) (runtime.Object, error) {
	u, ok := in.(*unstructured.Unstructured)
	if !ok {
		return nil, fmt.Errorf("trivialConvertor: unsupported %T", in)
	}
	gvk := u.GroupVersionKind()
	target, ok := gv.KindForGroupVersionKinds([]schema.GroupVersionKind{gvk})
	if !ok {
		return in, nil
	}
	if target.Version == gvk.Version || target.Version == runtime.APIVersionInternal {
		return in, nil
	}
	out := u.DeepCopy()
	out.SetGroupVersionKind(schema.GroupVersionKind{Group: gvk.Group, Version: target.Version, Kind: gvk.Kind})
	return out, nil
}

func (trivialConvertor) ConvertFieldLabel(_ schema.GroupVersionKind, label, value string) (string, string, error) {
	return label, value, nil
}

type nopDefaulter struct{}

func (nopDefaulter) Default(runtime.Object) {}

type unstructuredCreater struct{}

func (unstructuredCreater) New(kind schema.GroupVersionKind) (runtime.Object, error) {
	u := &unstructured.Unstructured{}
	u.SetGroupVersionKind(kind)
	return u, nil
}

type mgrKey struct {
	gvk    schema.GroupVersionKind
	status bool
}

var (
	mgrMu    sync.Mutex
	mgrCache = map[mgrKey]*ssaManagers{}
)

func (s *Store) managers(gvk schema.GroupVersionKind) (*ssaManagers, error) {
	mgrMu.Lock()
	defer mgrMu.Unlock()
	ck := mgrKey{gvk, s.hasStatus(gvk.GroupKind())}
	if m, ok := mgrCache[ck]; ok {
		return m, nil
	}
	_, models := schemaFor(gvk)
	tc, err := managedfields.NewTypeConverter(models, true)
	if err != nil {
		return nil, err
	}
	av := fieldpath.APIVersion(gvk.GroupVersion().String())
	var mainReset, statusReset map[fieldpath.APIVersion]*fieldpath.Set
	if s.hasStatus(gvk.GroupKind()) {
		mainReset = map[fieldpath.APIVersion]*fieldpath.Set{av: fieldpath.NewSet(fieldpath.MakePathOrDie("status"))}
		statusReset = map[fieldpath.APIVersion]*fieldpath.Set{av: fieldpath.NewSet(fieldpath.MakePathOrDie("spec"))}
	}
	m := &ssaManagers{}
	m.main, err = managedfields.NewDefaultCRDFieldManager(tc, trivialConvertor{}, nopDefaulter{}, unstructuredCreater{}, gvk, gvk.GroupVersion(), "", mainReset)
	if err != nil {
		return nil, err
	}
	m.status, err = managedfields.NewDefaultCRDFieldManager(tc, trivialConvertor{}, nopDefaulter{}, unstructuredCreater{}, gvk, gvk.GroupVersion(), "status", statusReset)
	if err != nil {
		return nil, err
	}
	mgrCache[ck] = m
	return m, nil
}
