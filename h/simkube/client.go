package simkube

import (
	"context"
	"encoding/json"
	"fmt"
	"reflect"
	"strings"

	jsonpatch "github.com/evanphx/json-patch/v5"
	kjson "sigs.k8s.io/json"
	"k8s.io/apimachinery/pkg/api/meta"
	kerrors "k8s.io/apimachinery/pkg/api/errors"
	metav1 "k8s.io/apimachinery/pkg/apis/meta/v1"
	"k8s.io/apimachinery/pkg/apis/meta/v1/unstructured"
	"k8s.io/apimachinery/pkg/fields"
	"k8s.io/apimachinery/pkg/labels"
	"k8s.io/apimachinery/pkg/runtime"
	"k8s.io/apimachinery/pkg/runtime/schema"
	"k8s.io/apimachinery/pkg/types"
	"k8s.io/apimachinery/pkg/util/validation/field"
	"sigs.k8s.io/controller-runtime/pkg/client"
	"sigs.k8s.io/controller-runtime/pkg/client/apiutil"
)

type indexer struct {
	proto client.Object
	fn    client.IndexerFunc
}

// Client is a client.Client bound to a Store. The name identifies the caller
// in the call / write log.
type Client struct {
	S    *Store
	Name string
}

var (
	_ client.Client       = &Client{}
	_ client.FieldIndexer = &Client{}
)

// Client returns a client for the store.
func (s *Store) Client(name string) *Client { return &Client{S: s, Name: name} }

// ---- conversions ----------------------------------------------------------

func (s *Store) gvkOf(o runtime.Object) (schema.GroupVersionKind, error) {
	if _, ok := o.(runtime.Unstructured); ok {
		gvk := o.GetObjectKind().GroupVersionKind()
		if gvk.Kind == "" {
			return gvk, fmt.Errorf("unstructured object has no kind")
		}
		return gvk, nil
	}
	return apiutil.GVKForObject(o, s.Scheme)
}

func (s *Store) toU(o runtime.Object) (*unstructured.Unstructured, error) {
	gvk, err := s.gvkOf(o)
	if err != nil {
		return nil, err
	}
	if ru, ok := o.(runtime.Unstructured); ok {
		u := &unstructured.Unstructured{Object: runtime.DeepCopyJSON(jsonClean(ru.UnstructuredContent()))}
		u.SetGroupVersionKind(gvk)
		return u, nil
	}
	// JSON round trip so the stored form is exactly what the wire would carry.
	b, err := json.Marshal(o)
	if err != nil {
		return nil, err
	}
	m := map[string]any{}
	if err := json.Unmarshal(b, &m); err != nil {
		return nil, err
	}
	u := &unstructured.Unstructured{Object: jsonNumbers(m).(map[string]any)}
	u.SetGroupVersionKind(gvk)
	return u, nil
}

// jsonClean round-trips content that may hold non-JSON Go types (int,
// []string, ...) into pure JSON types.
func jsonClean(m map[string]any) map[string]any {
	if isPureJSON(m) {
		return m
	}
	b, err := json.Marshal(m)
	if err != nil {
		panic(err)
	}
	out := map[string]any{}
	if err := json.Unmarshal(b, &out); err != nil {
		panic(err)
	}
	return jsonNumbers(out).(map[string]any)
}

func isPureJSON(v any) bool {
	switch t := v.(type) {
	case nil, string, bool, int64, float64:
		return true
	case map[string]any:
		for _, vv := range t {
			if !isPureJSON(vv) {
				return false
			}
		}
		return true
	case []any:
		for _, vv := range t {
			if !isPureJSON(vv) {
				return false
			}
		}
		return true
	}
	return false
}

// jsonNumbers turns float64 values that are integral into int64, as the
// Kubernetes JSON decoder does for unstructured content.
func jsonNumbers(v any) any {
	switch t := v.(type) {
	case map[string]any:
		for k, vv := range t {
			t[k] = jsonNumbers(vv)
		}
		return t
	case []any:
		for i, vv := range t {
			t[i] = jsonNumbers(vv)
		}
		return t
	case float64:
		if t == float64(int64(t)) && t < 1e15 && t > -1e15 {
			return int64(t)
		}
	}
	return v
}

func (s *Store) fromU(u *unstructured.Unstructured, into runtime.Object) error {
	if ru, ok := into.(runtime.Unstructured); ok {
		ru.SetUnstructuredContent(runtime.DeepCopyJSON(u.Object))
		return nil
	}
	// Zero the target then decode.
	v := reflect.ValueOf(into)
	if v.Kind() == reflect.Ptr && !v.IsNil() {
		v.Elem().Set(reflect.Zero(v.Elem().Type()))
	}
	b, err := json.Marshal(u.Object)
	if err != nil {
		return err
	}
	// Decode as the real client does (sigs.k8s.io/json, the decoder behind
	// the Kubernetes JSON serializer): slices come out with spare capacity,
	// which is what makes an aliasing append in a reconciler observable.
	if err := kjson.UnmarshalCaseSensitivePreserveInts(b, into); err != nil {
		return err
	}
	return nil
}

// ---- call plumbing ---------------------------------------------------------

func serverErr(c Call) error {
	return kerrors.NewInternalError(fmt.Errorf("injected server error at %s", c))
}

// begin registers the call and consults the injector. It returns the outcome
// for the effect phase; for ErrBefore/Conflict it returns the error to hand
// back.
func (c *Client) begin(call *Call) (Outcome, error) {
	s := c.S
	s.mu.Lock()
	s.seq++
	call.Seq = s.seq
	call.Client = c.Name
	poisoned := s.poisoned[c.Name]
	admitting := s.admitting > 0
	s.mu.Unlock()
	if admitting {
		return OK, nil
	}
	if poisoned {
		return ErrBefore, kerrors.NewServiceUnavailable("client of a crashed incarnation")
	}
	out := OK
	if s.Inj != nil {
		out = s.Inj.Decide(*call)
	}
	if !call.Write {
		switch out {
		case Conflict, ErrAfter:
			out = ErrBefore
		case CrashAfter:
			out = CrashBefore
		}
	}
	switch out {
	case NotFound:
		if call.Write {
			s.logWrite(&WriteRecord{Call: *call, Err: "injected not found"})
		}
		return out, kerrors.NewNotFound(gr(call.Key), call.Key.Name)
	case ErrBefore:
		if call.Write {
			s.logWrite(&WriteRecord{Call: *call, Err: "injected error before"})
		}
		if s.ErrBeforeFn != nil {
			if err := s.ErrBeforeFn(*call); err != nil {
				return out, err
			}
		}
		return out, serverErr(*call)
	case Conflict:
		s.logWrite(&WriteRecord{Call: *call, Err: "injected conflict"})
		return out, kerrors.NewConflict(gr(call.Key), call.Key.Name, fmt.Errorf("injected conflict: the object has been modified"))
	case CrashBefore:
		panic(Crash{Call: *call})
	}
	return out, nil
}

func (s *Store) logWrite(rec *WriteRecord) {
	s.mu.Lock()
	s.Log = append(s.Log, *rec)
	hooks := s.OnWrite
	s.mu.Unlock()
	if rec.Effective && !rec.Call.DryRun {
		for _, h := range hooks {
			h(rec)
		}
	}
}

// finish logs a write and applies the after-effect outcomes.
func (c *Client) finish(call Call, out Outcome, rec *WriteRecord, err error) error {
	rec.Call = call
	if err != nil {
		rec.Err = err.Error()
	}
	c.S.logWrite(rec)
	if err == nil {
		switch out {
		case ErrAfter:
			return kerrors.NewTimeoutError(fmt.Sprintf("injected timeout after %s took effect", call), 1)
		case CrashAfter:
			panic(Crash{Call: call})
		}
	}
	return err
}

func isDryRun(dr []string) bool { return len(dr) > 0 }

// ---- reads -----------------------------------------------------------------

// Get implements client.Reader.
func (c *Client) Get(_ context.Context, key client.ObjectKey, obj client.Object, _ ...client.GetOption) error {
	gvk, err := c.S.gvkOf(obj)
	if err != nil {
		return err
	}
	k := ObjKey{Group: gvk.Group, Kind: gvk.Kind, Namespace: key.Namespace, Name: key.Name}
	call := Call{Verb: "get", Key: k}
	if _, err := c.begin(&call); err != nil {
		return err
	}
	s := c.S
	s.mu.Lock()
	s.Reads++
	if s.NoMatch[k.GK()] {
		s.mu.Unlock()
		return &meta.NoKindMatchError{GroupKind: k.GK(), SearchedVersions: []string{gvk.Version}}
	}
	e, ok := s.objs[k]
	var u *unstructured.Unstructured
	if ok {
		u = deepCopy(e.obj)
	}
	s.mu.Unlock()
	if !ok {
		return kerrors.NewNotFound(gr(k), key.Name)
	}
	u.SetGroupVersionKind(gvk)
	return s.fromU(u, obj)
}

// List implements client.Reader.
func (c *Client) List(_ context.Context, list client.ObjectList, opts ...client.ListOption) error {
	s := c.S
	lo := client.ListOptions{}
	lo.ApplyOptions(opts)
	gvk, err := s.gvkOf(list)
	if err != nil {
		return err
	}
	gvk.Kind = strings.TrimSuffix(gvk.Kind, "List")
	k := ObjKey{Group: gvk.Group, Kind: gvk.Kind, Namespace: lo.Namespace}
	call := Call{Verb: "list", Key: k}
	if _, err := c.begin(&call); err != nil {
		return err
	}
	items, err := s.list(gvk, lo)
	if err != nil {
		return err
	}
	if ul, ok := list.(*unstructured.UnstructuredList); ok {
		ul.Items = nil
		for _, it := range items {
			ul.Items = append(ul.Items, *it)
		}
		return nil
	}
	objs := make([]runtime.Object, 0, len(items))
	for _, it := range items {
		o, err := s.Scheme.New(gvk)
		if err != nil {
			return err
		}
		if err := s.fromU(it, o); err != nil {
			return err
		}
		objs = append(objs, o)
	}
	return meta.SetList(list, objs)
}

func (s *Store) list(gvk schema.GroupVersionKind, lo client.ListOptions) ([]*unstructured.Unstructured, error) {
	s.mu.Lock()
	defer s.mu.Unlock()
	s.Reads++
	gk := gvk.GroupKind()
	if s.NoMatch[gk] {
		return nil, &meta.NoKindMatchError{GroupKind: gk, SearchedVersions: []string{gvk.Version}}
	}
	var out []*unstructured.Unstructured
	for _, k := range s.keysLocked() {
		if k.GK() != gk {
			continue
		}
		if lo.Namespace != "" && k.Namespace != lo.Namespace {
			continue
		}
		u := deepCopy(s.objs[k].obj)
		u.SetGroupVersionKind(gvk)
		if lo.LabelSelector != nil && !lo.LabelSelector.Matches(labels.Set(u.GetLabels())) {
			continue
		}
		if lo.FieldSelector != nil && !lo.FieldSelector.Empty() {
			ok, err := s.matchFields(gk, u, lo.FieldSelector)
			if err != nil {
				return nil, err
			}
			if !ok {
				continue
			}
		}
		out = append(out, u)
	}
	return out, nil
}

func (s *Store) matchFields(gk schema.GroupKind, u *unstructured.Unstructured, sel fields.Selector) (bool, error) {
	for _, req := range sel.Requirements() {
		switch req.Field {
		case "metadata.name":
			if (u.GetName() == req.Value) != (req.Operator != "!=") {
				return false, nil
			}
			continue
		case "metadata.namespace":
			if (u.GetNamespace() == req.Value) != (req.Operator != "!=") {
				return false, nil
			}
			continue
		}
		ix, ok := s.indexes[gk][req.Field]
		if !ok {
			return false, fmt.Errorf("simkube: no index %q registered for %s", req.Field, gk)
		}
		var o client.Object
		if _, isU := ix.proto.(runtime.Unstructured); isU {
			o = u.DeepCopy()
		} else {
			n, err := s.Scheme.New(u.GroupVersionKind())
			if err != nil {
				// Fall back to the prototype's own version.
				n = ix.proto.DeepCopyObject()
			}
			if err := s.fromU(u, n); err != nil {
				return false, err
			}
			o = n.(client.Object)
		}
		hit := false
		for _, v := range ix.fn(o) {
			if v == req.Value {
				hit = true
			}
		}
		if !hit {
			return false, nil
		}
	}
	return true, nil
}

// IndexField implements client.FieldIndexer.
func (c *Client) IndexField(_ context.Context, obj client.Object, fieldName string, fn client.IndexerFunc) error {
	gvk, err := c.S.gvkOf(obj)
	if err != nil {
		return err
	}
	c.S.mu.Lock()
	defer c.S.mu.Unlock()
	gk := gvk.GroupKind()
	if c.S.indexes[gk] == nil {
		c.S.indexes[gk] = map[string]indexer{}
	}
	c.S.indexes[gk][fieldName] = indexer{proto: obj, fn: fn}
	return nil
}

// ---- writes ----------------------------------------------------------------

// admit runs admission with the store lock released (admission plugins such
// as webhooks read the store through a client). Calls made while admitting
// are part of the API server's processing of the request: they are not fault
// points. The caller holds the lock.
func (s *Store) admit(op *AdmissionOp) error {
	if len(s.Admit) == 0 {
		return nil
	}
	s.admitting++
	s.mu.Unlock()
	defer func() {
		s.mu.Lock()
		s.admitting--
	}()
	for _, a := range s.Admit {
		if err := a(op); err != nil {
			return err
		}
	}
	return nil
}

// Create implements client.Writer.
func (c *Client) Create(_ context.Context, obj client.Object, opts ...client.CreateOption) error {
	s := c.S
	co := client.CreateOptions{}
	co.ApplyOptions(opts)
	u, err := s.toU(obj)
	if err != nil {
		return err
	}
	call := Call{Verb: "create", Key: KeyOf(u), DryRun: isDryRun(co.DryRun), Write: true}
	out, err := c.begin(&call)
	if err != nil {
		return err
	}
	mgr := co.FieldManager
	rec := &WriteRecord{}
	res, err := s.create(u, call, mgr, rec)
	if err == nil {
		call.Key = KeyOf(res)
	}
	if err = c.finish(call, out, rec, err); err != nil {
		return err
	}
	return s.fromU(res, obj)
}

func (s *Store) create(u *unstructured.Unstructured, call Call, mgr string, rec *WriteRecord) (*unstructured.Unstructured, error) {
	s.mu.Lock()
	defer s.mu.Unlock()
	gvk := u.GroupVersionKind()
	if s.NoMatch[gvk.GroupKind()] {
		return nil, &meta.NoKindMatchError{GroupKind: gvk.GroupKind(), SearchedVersions: []string{gvk.Version}}
	}
	if u.GetResourceVersion() != "" {
		return nil, kerrors.NewBadRequest("resourceVersion should not be set on objects to be created")
	}
	if u.GetName() == "" && u.GetGenerateName() != "" {
		s.nameN++
		u.SetName(fmt.Sprintf("%s%05x", u.GetGenerateName(), s.nameN))
	}
	k := KeyOf(u)
	if _, ok := s.objs[k]; ok {
		return nil, kerrors.NewAlreadyExists(gr(k), k.Name)
	}
	if err := s.validateMeta(u); err != nil {
		return nil, err
	}
	if len(u.GetFinalizers()) == 0 && u.GetDeletionTimestamp() != nil {
		u.SetDeletionTimestamp(nil)
	}
	u.SetDeletionTimestamp(nil)
	dedupOwners(u)
	if s.hasStatus(gvk.GroupKind()) {
		delete(u.Object, "status")
	}
	if err := s.admit(&AdmissionOp{Verb: "CREATE", Key: k, Version: gvk.Version, New: u, DryRun: call.DryRun, Client: call.Client}); err != nil {
		return nil, err
	}
	u.SetUID(s.nextUID())
	u.SetCreationTimestamp(s.now())
	u.SetGeneration(1)
	if err := s.trackUpdate(nil, u, mgr, ""); err != nil {
		return nil, err
	}
	if call.DryRun {
		u.SetResourceVersion("")
		return u, nil
	}
	u.SetResourceVersion(s.nextRV())
	s.objs[k] = &entry{obj: deepCopy(u)}
	rec.Effective = true
	rec.After = deepCopy(u)
	return u, nil
}

// trackUpdate maintains managedFields for a non-apply write.
func (s *Store) trackUpdate(live, n *unstructured.Unstructured, mgr, sub string) error {
	if mgr == "" {
		mgr = s.DefaultManager
	}
	ms, err := s.managers(n.GroupVersionKind())
	if err != nil {
		return err
	}
	fm := ms.main
	if sub == "status" {
		fm = ms.status
	}
	if live == nil {
		live = &unstructured.Unstructured{}
		live.SetGroupVersionKind(n.GroupVersionKind())
	} else {
		live = deepCopy(live)
		live.SetGroupVersionKind(n.GroupVersionKind())
	}
	res := fm.UpdateNoErrors(live, n, mgr)
	if ru, ok := res.(*unstructured.Unstructured); ok && ru != n {
		n.Object = ru.Object
	}
	return nil
}

// Update implements client.Writer.
func (c *Client) Update(_ context.Context, obj client.Object, opts ...client.UpdateOption) error {
	uo := client.UpdateOptions{}
	uo.ApplyOptions(opts)
	return c.update(obj, "", isDryRun(uo.DryRun), uo.FieldManager)
}

func (c *Client) update(obj client.Object, sub string, dry bool, mgr string) error {
	s := c.S
	u, err := s.toU(obj)
	if err != nil {
		return err
	}
	call := Call{Verb: "update", Sub: sub, Key: KeyOf(u), DryRun: dry, Write: true}
	out, err := c.begin(&call)
	if err != nil {
		return err
	}
	rec := &WriteRecord{}
	res, err := s.update(u, call, mgr, rec)
	if err = c.finish(call, out, rec, err); err != nil {
		return err
	}
	return s.fromU(res, obj)
}

func (s *Store) update(u *unstructured.Unstructured, call Call, mgr string, rec *WriteRecord) (*unstructured.Unstructured, error) {
	s.mu.Lock()
	defer s.mu.Unlock()
	k := call.Key
	gvk := u.GroupVersionKind()
	if s.NoMatch[k.GK()] {
		return nil, &meta.NoKindMatchError{GroupKind: k.GK(), SearchedVersions: []string{gvk.Version}}
	}
	e, ok := s.objs[k]
	if !ok {
		return nil, kerrors.NewNotFound(gr(k), k.Name)
	}
	live := e.obj
	if uid := u.GetUID(); uid != "" && uid != live.GetUID() {
		return nil, kerrors.NewConflict(gr(k), k.Name, fmt.Errorf("Precondition failed: UID in precondition: %v, UID in object meta: %v", uid, live.GetUID()))
	}
	if rv := u.GetResourceVersion(); rv != "" && rv != live.GetResourceVersion() {
		return nil, kerrors.NewConflict(gr(k), k.Name, fmt.Errorf("the object has been modified; please apply your changes to the latest version and try again"))
	}
	return s.applyUpdate(k, e, u, call, mgr, rec, false)
}

// applyUpdate runs the common update path: n is the proposed new object
// (already merged by a patch, or supplied by an update).
func (s *Store) applyUpdate(k ObjKey, e *entry, n *unstructured.Unstructured, call Call, mgr string, rec *WriteRecord, tracked bool) (*unstructured.Unstructured, error) {
	live := e.obj
	gvk := n.GroupVersionKind()
	sub := call.Sub
	if s.hasStatus(k.GK()) {
		if sub == "status" {
			// Only status (and managedFields) may change.
			st, has := n.Object["status"]
			mf := n.GetManagedFields()
			n = deepCopy(live)
			n.SetGroupVersionKind(gvk)
			n.SetManagedFields(mf)
			if has {
				n.Object["status"] = st
			} else {
				delete(n.Object, "status")
			}
		} else {
			if st, has := live.Object["status"]; has {
				n.Object["status"] = runtime.DeepCopyJSONValue(st)
			} else {
				delete(n.Object, "status")
			}
		}
	}
	// System metadata (rest.BeforeUpdate).
	if n.GetUID() == "" {
		n.SetUID(live.GetUID())
	}
	if n.GetUID() != live.GetUID() {
		return nil, kerrors.NewInvalid(k.GK(), k.Name, field.ErrorList{field.Invalid(field.NewPath("metadata", "uid"), string(n.GetUID()), "field is immutable")})
	}
	n.SetCreationTimestamp(live.GetCreationTimestamp())
	n.SetDeletionTimestamp(live.GetDeletionTimestamp())
	n.SetDeletionGracePeriodSeconds(live.GetDeletionGracePeriodSeconds())
	n.SetGeneration(live.GetGeneration())
	n.SetName(live.GetName())
	n.SetNamespace(live.GetNamespace())
	dedupOwners(n)
	if err := s.validateMeta(n); err != nil {
		return nil, err
	}
	if live.GetDeletionTimestamp() != nil {
		old := map[string]bool{}
		for _, f := range live.GetFinalizers() {
			old[f] = true
		}
		for _, f := range n.GetFinalizers() {
			if !old[f] {
				return nil, kerrors.NewInvalid(k.GK(), k.Name, field.ErrorList{field.Forbidden(field.NewPath("metadata", "finalizers"), "no new finalizers can be added if the object is being deleted")})
			}
		}
	}
	liveV := deepCopy(live)
	liveV.SetGroupVersionKind(gvk)
	if err := s.admit(&AdmissionOp{Verb: "UPDATE", Sub: sub, Key: k, Version: gvk.Version, Old: liveV, New: n, DryRun: call.DryRun, Client: call.Client}); err != nil {
		return nil, err
	}
	if !tracked {
		if err := s.trackUpdate(live, n, mgr, sub); err != nil {
			return nil, err
		}
	}
	// No-op detection: nothing but the resourceVersion / apiVersion differs.
	n.SetResourceVersion(live.GetResourceVersion())
	cmpN, cmpL := deepCopy(n), deepCopy(live)
	cmpL.SetGroupVersionKind(gvk)
	stripMFTimes(cmpN)
	stripMFTimes(cmpL)
	if reflect.DeepEqual(cmpN.Object, cmpL.Object) {
		out := deepCopy(live)
		out.SetGroupVersionKind(gvk)
		return out, nil
	}
	if call.DryRun {
		return n, nil
	}
	rec.Before = deepCopy(live)
	stored := deepCopy(n)
	deleted := s.commit(k, e, stored)
	rec.Effective = true
	rec.Deleted = deleted
	rec.After = deepCopy(stored)
	out := deepCopy(stored)
	out.SetGroupVersionKind(gvk)
	return out, nil
}

func stripMFTimes(u *unstructured.Unstructured) {
	mf := u.GetManagedFields()
	for i := range mf {
		mf[i].Time = nil
	}
	u.SetManagedFields(mf)
}

// Patch implements client.Writer.
func (c *Client) Patch(_ context.Context, obj client.Object, p client.Patch, opts ...client.PatchOption) error {
	po := client.PatchOptions{}
	po.ApplyOptions(opts)
	return c.patch(obj, p, "", po)
}

func (c *Client) patch(obj client.Object, p client.Patch, sub string, po client.PatchOptions) error {
	s := c.S
	u, err := s.toU(obj)
	if err != nil {
		return err
	}
	data, err := p.Data(obj)
	if err != nil {
		return err
	}
	verb := "patch"
	if p.Type() == types.ApplyPatchType {
		verb = "apply"
	}
	call := Call{Verb: verb, Sub: sub, Key: KeyOf(u), DryRun: isDryRun(po.DryRun), Write: true}
	out, err := c.begin(&call)
	if err != nil {
		return err
	}
	rec := &WriteRecord{}
	force := po.Force != nil && *po.Force
	res, err := s.patch(u.GroupVersionKind(), call, p.Type(), data, po.FieldManager, force, rec)
	if err = c.finish(call, out, rec, err); err != nil {
		return err
	}
	return s.fromU(res, obj)
}

func (s *Store) patch(gvk schema.GroupVersionKind, call Call, pt types.PatchType, data []byte, mgr string, force bool, rec *WriteRecord) (*unstructured.Unstructured, error) {
	s.mu.Lock()
	defer s.mu.Unlock()
	k := call.Key
	if s.NoMatch[k.GK()] {
		return nil, &meta.NoKindMatchError{GroupKind: k.GK(), SearchedVersions: []string{gvk.Version}}
	}
	e, ok := s.objs[k]
	if pt == types.ApplyPatchType {
		return s.apply(gvk, k, e, call, data, mgr, force, rec)
	}
	if !ok {
		return nil, kerrors.NewNotFound(gr(k), k.Name)
	}
	live := deepCopy(e.obj)
	live.SetGroupVersionKind(gvk)
	liveJSON, err := json.Marshal(live.Object)
	if err != nil {
		return nil, err
	}
	var merged []byte
	switch pt {
	case types.MergePatchType, types.StrategicMergePatchType:
		// Strategic merge is only used by typed clients on kinds where this
		// model treats lists atomically; a JSON merge patch is the closest
		// sound approximation and is documented as such.
		merged, err = jsonpatch.MergePatch(liveJSON, data)
		if err != nil {
			return nil, kerrors.NewBadRequest(err.Error())
		}
	case types.JSONPatchType:
		jp, derr := jsonpatch.DecodePatch(data)
		if derr != nil {
			return nil, kerrors.NewBadRequest(derr.Error())
		}
		merged, err = jp.Apply(liveJSON)
		if err != nil {
			return nil, kerrors.NewInvalid(k.GK(), k.Name, field.ErrorList{field.Invalid(field.NewPath("patch"), string(data), err.Error())})
		}
	default:
		return nil, kerrors.NewBadRequest("unsupported patch type " + string(pt))
	}
	m := map[string]any{}
	if err := json.Unmarshal(merged, &m); err != nil {
		return nil, err
	}
	n := &unstructured.Unstructured{Object: jsonNumbers(m).(map[string]any)}
	n.SetGroupVersionKind(gvk)
	// A resourceVersion in the patch is an optimistic lock.
	if rv := n.GetResourceVersion(); rv != "" && rv != e.obj.GetResourceVersion() {
		return nil, kerrors.NewConflict(gr(k), k.Name, fmt.Errorf("the object has been modified; please apply your changes to the latest version and try again"))
	}
	return s.applyUpdate(k, e, n, call, mgr, rec, false)
}

func (s *Store) apply(gvk schema.GroupVersionKind, k ObjKey, e *entry, call Call, data []byte, mgr string, force bool, rec *WriteRecord) (*unstructured.Unstructured, error) {
	if mgr == "" {
		return nil, kerrors.NewBadRequest("PatchOptions.meta.k8s.io \"\" is invalid: fieldManager: Required value: is required for apply patch")
	}
	pm := map[string]any{}
	if err := json.Unmarshal(data, &pm); err != nil {
		return nil, kerrors.NewBadRequest(err.Error())
	}
	patchObj := &unstructured.Unstructured{Object: jsonNumbers(pm).(map[string]any)}
	if patchObj.GetAPIVersion() == "" || patchObj.GetKind() == "" {
		return nil, kerrors.NewBadRequest("apply patch must carry apiVersion and kind")
	}
	if len(patchObj.GetManagedFields()) > 0 {
		return nil, kerrors.NewBadRequest("metadata.managedFields must be nil")
	}
	ms, err := s.managers(gvk)
	if err != nil {
		return nil, err
	}
	fm := ms.main
	if call.Sub == "status" {
		fm = ms.status
	}
	if e == nil {
		if call.Sub != "" {
			return nil, kerrors.NewNotFound(gr(k), k.Name)
		}
		if patchObj.GetUID() != "" {
			return nil, kerrors.NewConflict(gr(k), k.Name, fmt.Errorf("uid mismatch: the provided object specified uid %s, and no existing object was found", patchObj.GetUID()))
		}
		empty := &unstructured.Unstructured{}
		empty.SetGroupVersionKind(gvk)
		res, err := fm.Apply(empty, patchObj, mgr, force)
		if err != nil {
			return nil, err
		}
		n := res.(*unstructured.Unstructured)
		n.SetGroupVersionKind(gvk)
		n.SetName(k.Name)
		n.SetNamespace(k.Namespace)
		if n.GetResourceVersion() != "" {
			return nil, kerrors.NewConflict(gr(k), k.Name, fmt.Errorf("resourceVersion set on apply of an object that does not exist"))
		}
		if err := s.validateMeta(n); err != nil {
			return nil, err
		}
		if s.hasStatus(gvk.GroupKind()) {
			delete(n.Object, "status")
		}
		if err := s.admit(&AdmissionOp{Verb: "CREATE", Key: k, Version: gvk.Version, New: n, DryRun: call.DryRun, Client: call.Client}); err != nil {
			return nil, err
		}
		n.SetUID(s.nextUID())
		n.SetCreationTimestamp(s.now())
		n.SetGeneration(1)
		if call.DryRun {
			return n, nil
		}
		n.SetResourceVersion(s.nextRV())
		s.objs[k] = &entry{obj: deepCopy(n)}
		rec.Effective = true
		rec.After = deepCopy(n)
		return n, nil
	}
	live := deepCopy(e.obj)
	live.SetGroupVersionKind(gvk)
	if rv := patchObj.GetResourceVersion(); rv != "" && rv != live.GetResourceVersion() {
		return nil, kerrors.NewConflict(gr(k), k.Name, fmt.Errorf("the object has been modified; please apply your changes to the latest version and try again"))
	}
	res, err := fm.Apply(live, patchObj, mgr, force)
	if err != nil {
		return nil, err
	}
	n := res.(*unstructured.Unstructured)
	n.SetGroupVersionKind(gvk)
	return s.applyUpdate(k, e, n, call, mgr, rec, true)
}

// Delete implements client.Writer.
func (c *Client) Delete(_ context.Context, obj client.Object, opts ...client.DeleteOption) error {
	s := c.S
	do := client.DeleteOptions{}
	do.ApplyOptions(opts)
	u, err := s.toU(obj)
	if err != nil {
		return err
	}
	call := Call{Verb: "delete", Key: KeyOf(u), DryRun: isDryRun(do.DryRun), Write: true}
	out, err := c.begin(&call)
	if err != nil {
		return err
	}
	rec := &WriteRecord{}
	err = s.delete(u.GroupVersionKind(), call, do, rec)
	return c.finish(call, out, rec, err)
}

func (s *Store) delete(gvk schema.GroupVersionKind, call Call, do client.DeleteOptions, rec *WriteRecord) error {
	s.mu.Lock()
	defer s.mu.Unlock()
	k := call.Key
	if s.NoMatch[k.GK()] {
		return &meta.NoKindMatchError{GroupKind: k.GK(), SearchedVersions: []string{gvk.Version}}
	}
	e, ok := s.objs[k]
	if !ok {
		return kerrors.NewNotFound(gr(k), k.Name)
	}
	live := e.obj
	if do.Preconditions != nil {
		if do.Preconditions.UID != nil && *do.Preconditions.UID != live.GetUID() {
			return kerrors.NewConflict(gr(k), k.Name, fmt.Errorf("Precondition failed: UID in precondition: %v, UID in object meta: %v", *do.Preconditions.UID, live.GetUID()))
		}
		if do.Preconditions.ResourceVersion != nil && *do.Preconditions.ResourceVersion != live.GetResourceVersion() {
			return kerrors.NewConflict(gr(k), k.Name, fmt.Errorf("Precondition failed: ResourceVersion"))
		}
	}
	liveV := deepCopy(live)
	liveV.SetGroupVersionKind(gvk)
	optm := map[string]any{}
	if do.PropagationPolicy != nil {
		optm["propagationPolicy"] = string(*do.PropagationPolicy)
	}
	if err := s.admit(&AdmissionOp{Verb: "DELETE", Key: k, Version: gvk.Version, Old: liveV, DryRun: call.DryRun, Options: optm, Client: call.Client}); err != nil {
		return err
	}
	if call.DryRun {
		return nil
	}
	n := deepCopy(live)
	fins := n.GetFinalizers()
	if do.PropagationPolicy != nil {
		switch *do.PropagationPolicy {
		case metav1.DeletePropagationForeground:
			if !contains(fins, metav1.FinalizerDeleteDependents) {
				fins = append(fins, metav1.FinalizerDeleteDependents)
			}
		case metav1.DeletePropagationOrphan:
			if !contains(fins, metav1.FinalizerOrphanDependents) {
				fins = append(fins, metav1.FinalizerOrphanDependents)
			}
		}
		n.SetFinalizers(fins)
	}
	if n.GetDeletionTimestamp() == nil {
		for _, f := range s.DeleteFinalizers[k.GK()] {
			if !contains(fins, f) {
				fins = append(fins, f)
			}
		}
		n.SetFinalizers(fins)
	}
	rec.Before = deepCopy(live)
	if len(fins) == 0 {
		s.bury(k, e)
		delete(s.objs, k)
		rec.Effective, rec.Deleted = true, true
		return nil
	}
	if n.GetDeletionTimestamp() == nil {
		now := s.now()
		n.SetDeletionTimestamp(&now)
		zero := int64(0)
		n.SetDeletionGracePeriodSeconds(&zero)
	}
	if reflect.DeepEqual(n.Object, live.Object) {
		return nil
	}
	s.commit(k, e, n)
	rec.Effective = true
	rec.After = deepCopy(n)
	return nil
}

func contains(ss []string, s string) bool {
	for _, x := range ss {
		if x == s {
			return true
		}
	}
	return false
}

// DeleteAllOf implements client.Writer.
func (c *Client) DeleteAllOf(ctx context.Context, obj client.Object, opts ...client.DeleteAllOfOption) error {
	s := c.S
	dao := client.DeleteAllOfOptions{}
	dao.ApplyOptions(opts)
	gvk, err := s.gvkOf(obj)
	if err != nil {
		return err
	}
	k := ObjKey{Group: gvk.Group, Kind: gvk.Kind, Namespace: dao.Namespace}
	call := Call{Verb: "deleteallof", Key: k, DryRun: isDryRun(dao.DryRun), Write: true}
	out, err := c.begin(&call)
	if err != nil {
		return err
	}
	items, err := s.list(gvk, dao.ListOptions)
	if err != nil {
		return c.finish(call, out, &WriteRecord{}, err)
	}
	any := false
	for _, it := range items {
		rec := &WriteRecord{}
		ic := call
		ic.Verb = "delete"
		ic.Key = KeyOf(it)
		derr := s.delete(gvk, ic, dao.DeleteOptions, rec)
		rec.Call = ic
		if derr != nil {
			rec.Err = derr.Error()
		}
		s.logWrite(rec)
		any = any || rec.Effective
	}
	return c.finish(call, out, &WriteRecord{Effective: false}, nil)
}

// ---- status subresource ----------------------------------------------------

type subWriter struct {
	c   *Client
	sub string
}

// Status implements client.StatusClient.
func (c *Client) Status() client.SubResourceWriter { return &subWriter{c: c, sub: "status"} }

// SubResource implements client.SubResourceClientConstructor.
func (c *Client) SubResource(sub string) client.SubResourceClient {
	return &subClient{subWriter{c: c, sub: sub}}
}

type subClient struct{ subWriter }

func (s *subClient) Get(_ context.Context, _ client.Object, _ client.Object, _ ...client.SubResourceGetOption) error {
	return fmt.Errorf("simkube: subresource get not supported")
}

func (w *subWriter) Create(_ context.Context, _ client.Object, _ client.Object, _ ...client.SubResourceCreateOption) error {
	return fmt.Errorf("simkube: subresource create not supported")
}

func (w *subWriter) Update(_ context.Context, obj client.Object, opts ...client.SubResourceUpdateOption) error {
	uo := client.SubResourceUpdateOptions{}
	uo.ApplyOptions(opts)
	return w.c.update(obj, w.sub, isDryRun(uo.DryRun), uo.FieldManager)
}

func (w *subWriter) Patch(_ context.Context, obj client.Object, p client.Patch, opts ...client.SubResourcePatchOption) error {
	po := client.SubResourcePatchOptions{}
	po.ApplyOptions(opts)
	return w.c.patch(obj, p, w.sub, po.PatchOptions)
}

// ---- misc ------------------------------------------------------------------

// Scheme implements client.Client.
func (c *Client) Scheme() *runtime.Scheme { return c.S.Scheme }

// RESTMapper implements client.Client.
func (c *Client) RESTMapper() meta.RESTMapper { return nil }

// GroupVersionKindFor implements client.Client.
func (c *Client) GroupVersionKindFor(obj runtime.Object) (schema.GroupVersionKind, error) {
	return c.S.gvkOf(obj)
}

// IsObjectNamespaced implements client.Client.
func (c *Client) IsObjectNamespaced(obj runtime.Object) (bool, error) {
	gvk, err := c.S.gvkOf(obj)
	if err != nil {
		return false, err
	}
	return c.S.NamespacedKinds[gvk.GroupKind()], nil
}
