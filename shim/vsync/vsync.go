// Package vsync is injected into the crossplane module by the verification
// overlay in place of "sync" for the files whose locks are scheduling
// points. Without a scheduler installed it behaves exactly like sync (this is
// what the free-running -race pass uses). With a scheduler, every Lock /
// RLock parks the calling goroutine until the explorer schedules it, and lock
// state is tracked here so the explorer knows which parked operations are
// enabled.
package vsync

import "sync"

// Scheduler is implemented by the explorer.
type Scheduler interface {
	// Acquire blocks until the scheduler lets the caller take the lock. The
	// scheduler only resumes the caller when l.CanAcquire(write) holds, and
	// updates the lock state itself via l.Take before resuming.
	Acquire(l *State, write bool, site string)
	// Released tells the scheduler a lock was released (no scheduling point).
	Released(l *State, write bool)
	// Go spawns a goroutine under the scheduler's control.
	Go(fn func())
}

// S is the installed scheduler (nil = pass through to sync).
var S Scheduler

// State is the explorer-visible state of a lock.
type State struct {
	Readers int
	Writer  bool
	Name    string
}

// CanAcquire reports whether the lock can be taken now.
func (s *State) CanAcquire(write bool) bool {
	if write {
		return !s.Writer && s.Readers == 0
	}
	return !s.Writer
}

// Take marks the lock as taken.
func (s *State) Take(write bool) {
	if write {
		s.Writer = true
	} else {
		s.Readers++
	}
}

// RWMutex mirrors sync.RWMutex.
type RWMutex struct {
	mu sync.RWMutex
	st State
}

// Lock locks for writing.
func (m *RWMutex) Lock() {
	if S != nil {
		S.Acquire(&m.st, true, "Lock")
		return
	}
	m.mu.Lock()
}

// Unlock unlocks for writing.
func (m *RWMutex) Unlock() {
	if S != nil {
		if !m.st.Writer {
			panic("vsync: Unlock of unlocked RWMutex")
		}
		m.st.Writer = false
		S.Released(&m.st, true)
		return
	}
	m.mu.Unlock()
}

// RLock locks for reading.
func (m *RWMutex) RLock() {
	if S != nil {
		S.Acquire(&m.st, false, "RLock")
		return
	}
	m.mu.RLock()
}

// RUnlock unlocks for reading.
func (m *RWMutex) RUnlock() {
	if S != nil {
		if m.st.Readers <= 0 {
			panic("vsync: RUnlock of unlocked RWMutex")
		}
		m.st.Readers--
		S.Released(&m.st, false)
		return
	}
	m.mu.RUnlock()
}

// Mutex mirrors sync.Mutex.
type Mutex struct {
	mu sync.Mutex
	st State
}

// Lock locks m.
func (m *Mutex) Lock() {
	if S != nil {
		S.Acquire(&m.st, true, "Lock")
		return
	}
	m.mu.Lock()
}

// Unlock unlocks m.
func (m *Mutex) Unlock() {
	if S != nil {
		if !m.st.Writer {
			panic("vsync: Unlock of unlocked Mutex")
		}
		m.st.Writer = false
		S.Released(&m.st, true)
		return
	}
	m.mu.Unlock()
}

// Pass-through types.
type (
	// WaitGroup is sync.WaitGroup.
	WaitGroup = sync.WaitGroup
	// Once is sync.Once.
	Once = sync.Once
	// Map is sync.Map.
	Map = sync.Map
	// Pool is sync.Pool.
	Pool = sync.Pool
	// Cond is sync.Cond.
	Cond = sync.Cond
	// Locker is sync.Locker.
	Locker = sync.Locker
)

// Go starts fn as a goroutine, under the scheduler when one is installed.
func Go(fn func()) {
	if S != nil {
		S.Go(fn)
		return
	}
	go fn()
}
