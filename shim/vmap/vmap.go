// Package vmap is injected into the crossplane module by the verification
// overlay. Sorted replaces direct iteration over Go maps so that iteration
// order is owned by the explorer instead of the runtime.
package vmap

import (
	"cmp"
	"fmt"
	"iter"
	"slices"
)

// Order, when set, permutes the sorted key positions for a site. It gets the
// site and the number of keys and returns a permutation of 0..n-1 (or nil for
// sorted order). The explorer sets it; it must be deterministic per run.
var Order func(site string, n int) []int

// Sorted iterates m in a deterministic order: keys sorted by their printed
// form, optionally permuted by Order. Entries deleted during the iteration
// are skipped and entries added during it are not visited, both of which are
// behaviours the Go specification allows.
func Sorted[M ~map[K]V, K comparable, V any](m M, site string) iter.Seq2[K, V] {
	return func(yield func(K, V) bool) {
		if len(m) == 0 {
			return
		}
		type kp struct {
			k K
			s string
		}
		keys := make([]kp, 0, len(m))
		for k := range m {
			keys = append(keys, kp{k, fmt.Sprint(k)})
		}
		slices.SortFunc(keys, func(a, b kp) int { return cmp.Compare(a.s, b.s) })
		var perm []int
		if Order != nil && len(keys) > 1 {
			perm = Order(site, len(keys))
		}
		for i := range keys {
			j := i
			if perm != nil {
				j = perm[i]
			}
			k := keys[j].k
			v, ok := m[k]
			if !ok {
				continue
			}
			if !yield(k, v) {
				return
			}
		}
	}
}
