package roles

import (
	"sigs.k8s.io/controller-runtime/pkg/client"
	"sigs.k8s.io/controller-runtime/pkg/handler"
)

// The event handlers Setup registers have unexported fields; these
// constructors build them exactly as Setup does (verification overlay only).

// VerifFamilyHandler is the handler Setup registers for ProviderRevisions.
func VerifFamilyHandler(c client.Client) handler.EventHandler {
	return &EnqueueRequestForAllRevisionsInFamily{client: c}
}

// VerifAllowRoleHandler is the handler Setup registers for ClusterRoles.
func VerifAllowRoleHandler(c client.Client, allowClusterRole string) handler.EventHandler {
	return &EnqueueRequestForAllRevisionsWithRequests{client: c, clusterRoleName: allowClusterRole}
}
