#!/usr/bin/env python3
"""Cross-check the survivors of mutate.py: a mutant that the check of property P
lets through often sits in code that belongs to another property anchored in
the same file. For every SURVIVED mutant, run the quick check of every other
property whose anchors name the mutated file and record the outcome under
"cross" in /verif/mutants/<PROP>.json (evaluation of the machinery only).

  mutcross.py [PROP ...] [--only=C03,C01]
"""
import json, os, subprocess, sys, shutil, glob

ROOT = os.path.dirname(os.path.dirname(os.path.abspath(__file__)))
WT = "/tmp/mutx"


def main():
    only = None
    props_arg = []
    for a in sys.argv[1:]:
        if a.startswith("--only="):
            only = set(a[7:].split(","))
        else:
            props_arg.append(a)
    props = {json.loads(l)["id"]: json.loads(l) for l in open(os.path.join(ROOT, "properties.jsonl"))}
    byfile = {}
    for pid, p in props.items():
        for f in p["anchors"]["files"]:
            byfile.setdefault(f, []).append(pid)
    head = subprocess.check_output(["git", "-C", "/repo", "rev-parse", "HEAD"], text=True).strip()
    if not os.path.isdir(WT):
        subprocess.check_call(["git", "-C", "/repo", "worktree", "add", "--detach", WT, head], stdout=subprocess.DEVNULL, stderr=subprocess.DEVNULL)
    files = sorted(glob.glob(os.path.join(ROOT, "mutants", "C*.json")))
    for fp in files:
        prop = os.path.basename(fp)[:-5]
        if props_arg and prop not in props_arg:
            continue
        results = json.load(open(fp))
        for mu in results:
            if mu["outcome"] != "SURVIVED":
                continue
            others = [p for p in byfile.get(mu["file"], []) if p != prop and (only is None or p in only)]
            cross = mu.setdefault("cross", {})
            for o in others:
                if o in cross:
                    continue
                p = os.path.join(WT, mu["file"])
                src = open(p).read().split("\n")
                # The file may have moved on since the mutant was generated
                # (fix commits): find the line again near its old place.
                at = None
                for d in sorted(range(-40, 41), key=abs):
                    i = mu["line"] - 1 + d
                    if 0 <= i < len(src) and src[i] == mu["old"]:
                        at = i
                        break
                if at is None:
                    cross[o] = "stale"
                    continue
                src[at] = mu["new"]
                open(p, "w").write("\n".join(src))
                env = dict(os.environ, VERIF_REPO=WT, VERIF_WORK=WT + "-work")
                r = subprocess.run([os.path.join(ROOT, "vcheck"), o, "quick"], cwd=ROOT, env=env, capture_output=True, text=True)
                sigs = sorted({l.strip().split("signature: ")[1] for l in (r.stdout + r.stderr).splitlines() if "signature: " in l})
                cross[o] = {0: "SURVIVED", 1: "DETECTED " + ",".join(sigs[:3])}.get(r.returncode, "harness-error")
                subprocess.call(["git", "-C", WT, "checkout", "--", "."])
                json.dump(results, open(fp, "w"), indent=1)
                print(f"{prop}->{o:4} {cross[o][:70]:70} {mu['file']}:{mu['line']} {mu['rule']}  {mu['old'].strip()[:70]}", flush=True)
    subprocess.call(["git", "-C", "/repo", "worktree", "remove", "--force", WT])
    shutil.rmtree(WT, ignore_errors=True)
    shutil.rmtree(WT + "-work", ignore_errors=True)


if __name__ == "__main__":
    main()
