#!/usr/bin/env python3
"""Runs the repository's own test suite against every seeded change (one
scratch worktree, one change at a time) and records the result in the seed's
meta.json. The Go test cache is allowed (it is keyed by the content of the
test binary and its inputs): packages a change does not reach are answered
from the baseline run, packages it reaches are re-run unless the identical
changed build was already tested.

  seedsuite.py [<seed-id> ...]      (default: every directory under seeded/)
"""
import re, json, os, subprocess, sys, time, shutil

ROOT = os.path.dirname(os.path.dirname(os.path.abspath(__file__)))
WT = "/tmp/seedsuite"
ENV = dict(os.environ, GOFLAGS="-mod=mod")
PKGS = "./internal/... ./apis/... ./cmd/... ./pkg/..."


def sh(cmd, cwd=WT, timeout=3600):
    r = subprocess.run(cmd, cwd=cwd, env=ENV, shell=True, capture_output=True, text=True, timeout=timeout)
    return r.returncode, r.stdout + r.stderr


def suite():
    t0 = time.time()
    rc, out = sh(f"go test -vet=off {PKGS}")
    lines = out.splitlines()
    return {
        "cmd": f"go test {PKGS} (existing tests, unedited; a package whose identical test binary and inputs were already run - by the baseline, or by an earlier run of the same change - is answered from the Go test cache)",
        "exit": rc,
        "ok_packages": sum(1 for l in lines if l.startswith("ok")),
        "cached": sum(1 for l in lines if l.startswith("ok") and "(cached)" in l),
        "failures": [l for l in lines if l.startswith("FAIL") or l.startswith("--- FAIL")],
        "seconds": round(time.time() - t0),
    }


def main():
    ids = sys.argv[1:] or sorted(d for d in os.listdir(os.path.join(ROOT, "seeded")) if re.match(r"C\d\d-\d+$", d))
    head = subprocess.check_output(["git", "-C", "/repo", "rev-parse", "HEAD"], text=True).strip()
    if not os.path.isdir(WT):
        subprocess.check_call(["git", "-C", "/repo", "worktree", "add", "--detach", WT, head], stdout=subprocess.DEVNULL, stderr=subprocess.DEVNULL)
    sh("git checkout -- . && git checkout -q --detach " + head)
    base = suite()
    print("baseline", base["exit"], base["ok_packages"], base["seconds"], "s", flush=True)
    assert base["exit"] == 0, base
    for sid in ids:
        d = os.path.join(ROOT, "seeded", sid)
        mp = os.path.join(d, "meta.json")
        if not os.path.exists(mp):
            continue
        meta = json.load(open(mp))
        rc, out = sh(f"git apply {d}/patch.diff")
        if rc != 0:
            print(sid, "PATCH DOES NOT APPLY", out[-300:], flush=True)
            continue
        rcb, outb = sh("go build ./...")
        res = suite()
        res["base"] = head[:7]
        res["build_exit"] = rcb
        sh("git checkout -- .")
        meta["suite"] = res
        json.dump(meta, open(mp, "w"), indent=1)
        print(sid, "build", rcb, "suite exit", res["exit"], "ok", res["ok_packages"], "cached", res["cached"], res["failures"][:3], res["seconds"], "s", flush=True)
    subprocess.call(["git", "-C", "/repo", "worktree", "remove", "--force", WT])
    shutil.rmtree(WT, ignore_errors=True)


if __name__ == "__main__":
    main()
