#!/usr/bin/env python3
"""Regenerates /verif/MANIFEST.json from the table below. A property is
claimed iff its check directory exists AND it has an entry in CLAIMED; every
other property of properties.jsonl is listed under not_applicable with a
reason."""
import json
import os

ROOT = os.path.dirname(os.path.dirname(os.path.abspath(__file__)))

LEVEL = {
    "C01": "fault_enumeration", "C02": "exploration", "C03": "fault_enumeration", "C04": "exploration",
    "C05": "exploration", "C06": "fault_enumeration", "C07": "exploration", "C08": "model_checking",
    "C09": "exploration", "C10": "exploration", "C11": "exploration", "C12": "fault_enumeration",
    "C13": "model_checking", "C14": "fault_enumeration", "C15": "fault_enumeration", "C16": "fault_enumeration",
    "C17": "exploration", "C18": "exploration", "C19": "model_checking", "C20": "fault_enumeration",
}

COMMON_NOTE = "Trusted base: simkube API-server model (h/simkube, conformance-tested; real structured-merge-diff, json-patch, owner reference validation), the overlay rewriter (map order / sync shims), go1.26.8 testing/synctest virtual time. Bounds are small and stated in the evidence; exhaustive within them."

CLAIMED = {
    "C01": {
        "text": "Every history of real XR reconciles (function-pipeline and P&T composers, production wiring) with up to F faults - each API call of the first W reconciles answering {error before, conflict, error after, crash before, crash after} - followed by fault-free reconciles to quiescence is enumerated (DFS with state-hash pruning); I1 (no live composed resource outside spec.resourceRefs) and I2 (one object per desired name, stable metadata.name) are evaluated after every effective write, I3 (quiescence, all desired resources present and referenced) at the end. quick W=2 F<=2, thorough W=3..4 F<=3, both map orders, 7 initial states; plus a function that names a resource itself after an XR field, windows in which every read of a composed kind misses the controller's cache (served only by the uncached fallback), a P&T template removed from the Composition, and cached reads answered 404.",
        "technique": "bounded exhaustive fault / crash-point enumeration on the real reconciler (stateless DFS over choice sequences, state-hash pruning)",
    },
    "C03": {
        "text": "All pipelines of 1..N steps over a 12-14 behaviour alphabet (grow/shrink/rename desired sets, error, fatal/warning/normal results, requirement sequences that stabilise after 0,1,4 rounds or never) x 7 observed states (none, a, a+b, referenced-but-deleted, terminating, foreign-controlled, uncontrolled) x 2 map orders run through the real XR reconciler and compared with a reference interpreter: a failing pipeline performs no write on any composed kind and leaves spec.resourceRefs unchanged; a succeeding one deletes exactly observed minus final-desired and never deletes a still-desired resource; plus one injected API fault (reads included) per reconcile, all P&T template-set changes x perturbations (incl. foreign owners that merely share the XR's name), and the same pipelines with the functions as real gRPC servers (v1, and v1beta1-only reached through the fallback) behind the real PackagedFunctionRunner; a reconcile hit by a fault is followed by fault-free retries that must end with exactly the final desired resources.",
        "technique": "exhaustive enumeration of function-pipeline programs and single-fault reconciles against a reference interpreter",
    },
    "C05": {
        "text": "Full product of per-resource (ready, invalid/render-failure) outcomes x XR-level ready x one function condition (Ready/Synced/Healthy/Custom x True/False x target) x forged desired-XR status (conditions, claimConditionTypes) x fatal step x initial conditions x claim syncer, for both composers; the statement is transcribed on the stored conditions and every case is re-run without the function-supplied conditions (differential oracle: system conditions of XR and claim must be identical); two readiness checks per P&T template met in every combination; plus the claim controller's cache lagging the XR by 0..3 versions over each readiness history: a claim is reported Ready=True only if the most recent copy of the XR the reconcile was given is Ready=True.",
        "technique": "exhaustive input-product enumeration on the real XR and claim reconcilers with a differential oracle",
    },
    "C06": {
        "text": "Histories of W real claim reconciles (client-side and server-side-apply syncers) where every API call is a fault/crash point and every cached read of claim/XR may be up to 3 writes stale (<= F deviations), interleaved with exhaustive environment events (XR reconciles, claim deletion), continued to quiescence; J1 (at most one XR per claim), J2 (claim references the XR at the instant it is created), J3 (name stable), J4 (no write to an XR bound to another claim) evaluated after every effective write; 9 initial states incl. hijack attempts (other name, same name in another namespace, reference under a foreign kind, reference edited after binding), 404 answers for reads of the claim (and of the XR on the deletion path), pending reference, and a claim that was deleted and finalized but is still served by a lagging cache. Plus thread-mode scenarios: all API-call-level interleavings (<= 2, thorough 3 preemptions) of the claim reconciler, the XR reconciler and the user's deletion of the claim.",
        "technique": "bounded exhaustive fault / crash-point / cache-lag enumeration on the real claim reconciler (DFS with state-hash pruning)",
    },
}

# Added by the fourth round of seeded changes (DESIGN.md 7.6).
ROUND4 = {
    "C01": " Also: the rendered resource arriving pre-annotated with another composition-resource-name (both composers); a fault-free history that never goes quiescent is an I3 violation.",
    "C02": " Also: the XRD sites run on established CRDs (so the XRD's status records its controllers), and a target that changes hands to a foreign controller after the owner completed two reconciles.",
    "C03": " Also: desired resources that are equal in all but namespace, kind or name (explicitly named), every subset desired and then every subset.",
    "C04": " Also: a requirement whose selector has two labels, with resources carrying only one of them.",
    "C05": " Also: applies answered 404 (namespace missing) and 403 besides 422, for both composers.",
    "C07": " Also: top-level user fields named like nested members of the machinery (name, type, namespace, kind, labels, metadata, matchLabels / message, reason, type, status, lastPublishedTime).",
    "C09": " Also: the XR replaced by a namesake (new UID, own secret) while its pipeline runs or before any later API call of that reconcile; a P&T composed resource rejected as invalid while a secret of the name its template writes to exists.",
    "C10": " Also: two templates leading with the same patch set, slices with spare capacity (as the API client decodes them).",
    "C11": " Also: earlier CRDs owned by nobody or by the XRD as a plain (non-controller) owner.",
    "C12": " Also: scenario faithful-capture - every ordered pair of an alphabet of 8 Composition specs, one per part of the API (patch policies and merge options, patch sets, all transforms, combine, connection details and readiness checks, pipeline input and credentials, top-level settings), revision spec compared JSON for JSON.",
    "C15": " Also: the `crossplane xpkg build` command itself (kong parsing, path resolution, filter wiring, real files) on 63 file subsets x examples root {below the package root, elsewhere, absent} x ignore patterns, with file names that contain the names of what is excluded.",
    "C16": " Also: a variant whose images hold two objects that differ only in kind (a provider's mutating and validating webhook configurations).",
    "C17": " Also: dependencies declared by type (Provider, Configuration, Function) and by apiVersion+kind; the package created must be of that kind.",
    "C19": " Also: the composite's apply of a composed Usage (real applicator with the composer's apply options) as an event, and dry-run DELETE requests.",
    "C20": " Also: the webhook service's DNS names for every service x namespace ending of an alphabet (certificates issued and verified for six of them); packages installed under names that are not DNS labels. The initializer's direct client is never answered 404 for an existing object.",
}

# Added by the fifth round (dynamic triggers).
ROUND5 = {
    "C03": " Also: an observed resource still managed client-side (managed-fields upgrade pending).",
    "C04": " Also: a failed read answers with any class of API error (500, server timeout, 504, 429, 503).",
    "C05": " Also: a custom condition mirrored on the claim must become Unknown there too after a fatal result.",
    "C07": " Also: the user binds the claim to a statically provisioned XR (or edits a field) just before the k-th API call of the claim's first reconcile, k = 1..8.",
    "C08": " Also: a second XR whose first reconcile was cut short after its finalizer was written (no labels), and an XR controller that gets to one instance at a time.",
    "C10": " Also: the kind of a template not being served (CRD not installed) while its name is generated.",
    "C11": " Also: long-lived definition and offered controllers over an XRD that is edited in place or deleted and created again under the same name.",
    "C12": " Also: scenario live-instances-sequence - every sequence of 5 events on one live revision controller and one live XR reconciler, without the transition memo.",
    "C13": " Also: two informers removed at once under two running controllers, with the iteration order of every map range owned by the explorer (sorted / reversed, alternating).",
    "C14": " Also: the production fetcher (xpkg.K8sFetcher) against an in-process OCI registry over HTTP whose manifest HEAD and GET requests fail on demand, for an image and for a multi-platform index, every sequence of three reconciles.",
    "C15": " Also: 2-3 revisions initialising concurrently through the one shared ImageBackend (thread mode; scheduling points at backend-option boundaries and registry calls).",
    "C16": " Also: the webhook TLS secret coming and going; no object controlled by a deactivated revision under any name.",
    "C17": " Also: another revision writing the Lock (removing or replacing a dependency) between a resolving revision's read and write.",
    "C18": " Also: the roles controller driven by its own event handlers (constructed as Setup does) over family-label, ownership and deletion edits, judged at an empty work queue.",
    "C19": " Also: Usages deleted with foreground propagation.",
}

# Added by the sixth round.
ROUND6 = {
    "C05": " Also: one long-lived reconciler over healthy and fatal reconciles of two XRs, in every order.",
    "C08": " Also: H1 from a claim that was never reconciled (first sync with a fault or crash at any call, deletion, retries): every XR that names the claim is deleted before the claim's finalizer goes.",
    "C12": " Also: after a completed reconcile the revision of the current content is controlled by the Composition (also after a backup / restore stripped the owner references).",
    "C15": " Also: 2-3 concurrent readers of the shared package cache (thread mode; scheduling points between Get, read and close).",
    "C17": " Also: a cyclic Lock reconciled three times by the same resolver instance.",
}

# Added by the seventh round.
ROUND7 = {
    "C02": " Also: a foreign controller creates the absent target (controller reference to a foreign UID) just before the k-th API call addressing it, k=1..6, at 14 write sites.",
    "C07": " Also: after claim->XR sync has gone quiet, the XR side writes each of the 32 subsets of {external name, compositionRef, compositionRevisionRef, resourceRefs, status} under 7 selection/policy combinations, both syncers; the two following re-syncs are judged by the same partition.",
    "C11": " Also: the definition reconciler built with the applicator Setup uses, with another XRD taking control of the derived CRD just before the k-th API call of the reconcile.",
    "C18": " Also: the package manager rewrites status.permissionRequests (append / replace by uncovered, remove, append covered) just before the k-th API call of a roles reconcile, k=1..10, then reconciles to quiescence.",
}

CLAIMED.update({
    "C10": {
        "text": "Exhaustive products over a 42-value JSON alphabet (every JSON type, int64/float boundaries, nested), 108 transform configurations (every transform type and parameter corner incl. negative/out-of-range regexp groups, malformed formats), chains of two, 7 patch types x 13 from-paths x 16 to-paths x 13 policies/merge options, combine patches, render/metadata cases: Resolve/Apply never panic, are deterministic and pure (source deep-equal before/after), optional-missing is a no-op and required-missing an error, results agree with an independent reference of each transform's documented meaning and the convert round-trip laws; reconciler-level scenarios show a composed resource whose from-XR patch, metadata or name generation failed is not written while its sibling is, and that the merge options of one template's patches do not change what is applied for the next template.",
        "technique": "exhaustive small-scope input enumeration against an independent reference implementation (real Resolve/Apply/PTComposer code)",
    },
    "C14": {
        "text": "Depth-bounded exhaustive search (state-hash pruning ranked by remaining depth) over sequences of package edits (source tags incl. rollbacks and a second tag of one digest, history limit, activation policy, pull policy), registry changes (re-tag, failure), revision health flips and real package-manager reconciles in which every API write is a fault/crash point; A1 (never two Active) after every write, A2 (current revision exists, highest number, Active unless manual) after each completed reconcile, A3 (names are a function of package and digest), A4 (GC only of the oldest non-current revision, only above limit+1, never with limit 0/nil) on every delete. Initial states: fresh, two-revision history, and an established package under a registry menu (outage, re-tag, IfNotPresent) where a completed reconcile must leave as current a revision of a digest the source's tag has pointed at, whether or not it asked the registry; revisions carry the revision controller's finalizer, so collected ones linger until an explicit event.",
        "technique": "explicit-state search over event sequences with the real reconciler as transition function, plus fault/crash-point enumeration",
    },
})

CLAIMED.update({
    "C13": {
        "text": "The real ControllerEngine, InformerTrackingCache, StoppableSource and watch GarbageCollector are compiled with a sync shim that makes every lock acquisition a scheduling point; a cooperative scheduler inside a testing/synctest bubble enumerates all schedules of 2-3 thread scenarios (11 curated collisions, all pairs - thorough: all triples - of single operations from two pre-states) with <= 2 (thorough 3) preemptions. Oracles: no deadlock, linearizability of the call/return history plus final observations against a sequential specification (brute force), handler registrations per kind = watches held by running controllers after the next start request, no registration and no live context after Stop. After every execution the engine's watch bookkeeping must agree with the informer cache (no lost or leaked registration, also across removed and re-created informers). The collector is additionally run on every combination of XR reference sets (none, one kind, two kinds, XRs that are being deleted) and running watches.",
        "technique": "stateless model checking of the real code under a controlled scheduler (preemption-bounded DFS over schedules) with a linearizability oracle",
        "note": "Interleaving granularity is lock acquisitions and (selected scenarios) lock releases of engine.go/cache.go/source.go, plus informer Get/Remove faults. Unsynchronised accesses between scheduling points (the 'does not race' clause) are invisible to a cooperative scheduler; the thorough tier therefore also runs the same scenario bodies free-running under the Go race detector (auxiliary, sampling, never the deciding step). Fake manager / informer cache / controller stand in for controller-runtime.",
    },
})

CLAIMED.update({
    "C18": {
        "text": "All allow-list x request rule-set pairs (sizes 0..2 each; thorough 2x2 over the 48-rule core universe = 1.27M pairs) over groups {'',g,*} x resources {r,r/status,*,*/status} x names {none,[n],['*']} x verbs {[get],[*]}, non-resource URL rules and mixed rules are run through the real validator and compared with an independent evaluator of Kubernetes RBAC over concrete requests (universe = mentioned constants + one fresh symbol per dimension): if Crossplane accepts, everything the requests grant is granted by the allow-list (being stricter is counted, not a violation); the validator instance is first used against an allow-all role that is then edited to the case's allow-list. Reconciler level (real roles, binding and definition reconcilers over simkube): any uncovered request => no ClusterRole write; an existing binding with a stale subject loses it; otherwise granted-by(system role) is a subset of own CRDs + same-family same-registry+org CRDs (+status, finalizers) + baseline + requests, over family label x package source (registry/org/prefix/digest/invalid) x owned reference lists; XRD roles grant exactly composite and claim resources.",
        "technique": "exhaustive small-scope enumeration of rule-set pairs against an independent RBAC reference evaluator; real reconcilers over the API-server model",
    },
})

CLAIMED.update({
    "C17": {
        "text": "Every lock graph on <= 3 (quick) / <= 4 (thorough: all 65,536 adjacency matrices x every set of missing nodes = 83,521) packages x Go map iteration orders (all permutations, owned by the overlay) for both DAG implementations against reference cycle detection, transitive closure and topological-order validation; version selection through the real resolver reconciler for all ordered tag lists over {v1.0.0,v1.1.0,v2.0.0,v1.2.0-rc.1,1.0,latest,v0.9.0} x 11 constraint strings (ranges, exact, digest, invalid) x installed version x upgrade/downgrade options against a reference selection rule; every cyclic lock performs no package write; PackageDependencyManager.Resolve totals and verdict against a reference for every graph x constraint assignment x which dependency is installed by digest; an unrelated package with the same repository path in another registry must stay untouched.",
        "technique": "exhaustive small-scope enumeration (all digraphs, all map orders, all tag lists) against independent reference algorithms",
    },
})

CLAIMED.update({
    "C16": {
        "text": "Depth-bounded exhaustive search (state-hash pruning) over upgrade / rollback histories starting from an established revision: package source edits, real package-manager reconciles (which activate and deactivate revisions), real revision reconciles in any order (real parser, linter, filesystem cache, APIEstablisher incl. its dry-run validation pass), garbage-collector runs and deletion of inactive revisions, with an API error at any call of a revision reconcile or, instead, one action of a third party between two calls (it deletes a package object, or creates it under another owner's control) or the package manager deactivating the revision between the reconciler's read and its first write; seven image variants (plain upgrade; an object controlled by another package's revision; an object the API server rejects; a foreign-controlled object; an uncontrolled pre-existing object). E1 all-or-nothing on establish failure, E2 only active revisions create / become controller (checked at every write), E3 deactivation drops control but keeps ownership, E4 established objects keep the package as non-controlling owner, E5 the garbage collector never deletes a CRD while its package exists.",
        "technique": "explicit-state search over event sequences with the real reconcilers as transition function, plus API-fault enumeration",
    },
})

CLAIMED.update({
    "C11": {
        "text": "Exhaustive enumeration of XRDs built from choices: 18 spec-property variants (each machinery key shadowed with a different type, all at once, none) x 7 status variants x name maxLength x required lists x CEL rules x oneOf / preserve-unknown-fields / descriptions, 10 version layouts with exactly one referenceable version, claim names absent / present / colliding in each name (also with the other optional name omitted), default policies, conversion; oracle: structural (every version, one storage version = referenceable, scope, controller reference, author properties / required / rules preserved) and differential (the CRD rendered with colliding author properties equals the one rendered without them; machinery keys equal an independent key->type table; independent of map iteration order); all 24x24 (old,new) update pairs x XRD life cycle {live, being deleted, being deleted with a finalizer removed} and all creates go through ValidateUpdate/ValidateCreate and the real admission webhook; a rival XRD offering the same claim names must not take over the claim CRD; after an XRD update the stored CRD equals the current rendering (no field of the earlier CRD survives); the real definition and offered reconcilers render the same CRDs over simkube.",
        "technique": "exhaustive small-scope input enumeration with structural and differential oracles on the real xcrd / validation / webhook code",
    },
    "C15": {
        "text": "The real revision reconciler (image backend, parser, per-type linters, version gate, signature gate, filesystem package cache) with a recording establisher over: the full product revision type x meta kind {each type, none, two} x up to 1 (thorough 2) objects of 6 kinds x 4 image layouts x 4 crossplane constraints x ignore flag x 4 signature-gate states, each reconciled twice (registry path then cache path) against the table of contributing/specifications/xpkg.md; 4 image layouts with and without decoy files named package.yaml in sub-directories of the package layer; every registry read-fault position (each 64 bytes and every YAML document boundary +-1, on the validation read or the parse read, delivered as (0,err), (n>0,err), early EOF or (n>0,EOF)) and every single filesystem fault of the cache from 4 initial cache states, each followed by fault-free reconciles: the establisher never receives a set that differs from the image's; the xpkg build round trip for every allowed object subset; and the signature gate end to end: the real signature-verification reconciler and ImageConfigStore (scripted validator) feeding the real revision reconciler, 6 ImageConfig sets x verdict x one failing read (server error or 404).",
        "technique": "exhaustive input-product enumeration plus exhaustive single-fault (read position / filesystem operation) enumeration on the real reconciler",
    },
})

CLAIMED.update({
    "C12": {
        "text": "Depth-bounded exhaustive search (state-hash pruning; transitions memoised per (state, event, fault decisions)) over sequences of: Composition edits to five contents (spec change, label-only, annotation-only, step-input change, incl. A-B-A reverts), real revision-controller reconciles in which every API call is a fault/crash point, stripping the owner references of all revisions (backup/restore), deletion of the oldest revision, and real XR reconciles for a Manual, an Automatic and an Automatic-with-selector XR; from a fresh state and from a prepared three-revision history. R1 one revision per content hash, R2 revision specs never edited apart from the number, R3 numbers never decrease, R4 after a reconcile that reports completion (no error, no requeue - also when a call inside it was answered with an injected fault) the current content's revision has the strictly highest number, two further scenarios run edits, one faulted reconcile and its retries on one live controller instance without the memo; R5 Manual XRs keep their revision and Automatic XRs end on the highest-numbered controlled (selector-matching) revision.",
        "technique": "explicit-state search over event sequences with the real reconcilers as transition function, plus fault/crash-point enumeration",
    },
})

CLAIMED.update({
    "C09": {
        "text": "Real XR reconciler (both composers, XRD key filter) and real claim reconciler (both syncers) over simkube: all 8 produced-key subsets x 4 key filters x 3 ways of asking x pre-existing destination secret {absent, uncontrolled connection type, uncontrolled Opaque, owned, other UID} x stale data; P&T extraction configs of all three types incl. missing keys / paths and unnamed configs; 9 source-secret situations x destination states for claim propagation (a claim never copies a secret its XR does not control; foreign secrets stay byte-identical); steady-state reconciles write nothing and do not move lastPublishedTime; one injected API fault (reads included) in any of 5 reconciles followed by fault-free reconciles to quiescence ends in the reference secrets; intruder claims (other name, namesake in another namespace) that point at the XR never obtain its secret; the external-secret-stores wiring filters like the default one; a function that copies the details of observed composed resources never receives (from the cache or, on a cache miss, from the API server) a resource named in spec.resourceRefs that another owner controls, and its details never reach the XR's secret.",
        "technique": "exhaustive configuration enumeration plus single-fault enumeration on the real reconcilers against a reference model of published keys",
    },
    "C19": {
        "text": "Depth-bounded exhaustive search (state-hash pruning) over creations / deletions of two Usages of one resource (by reference, by selector, with controller matching, with and without a using resource, naming API version v1 or v2, replayDeletion, composed Usages whose deletion waits for the using resource; from the initial state and from a state with both Usages Ready), real usage reconciles with an API write fault or crash at any call, DELETE requests with every propagation policy through both API versions, deletion of the using resource, garbage-collector runs, the using resource re-created under the same name, and clock advances; plus thread-mode scenarios in which the finalization of one Usage and the creation + reconciles of another Usage of the same resource run concurrently (all interleavings of their API calls, <= 2, thorough 3 preemptions); DELETE admission is dispatched to the real webhook handler and index function according to the repository's webhook configuration. M1 every DELETE is refused while a Usage of the resource is Ready and not being deleted and allowed when none names it, M2 refused attempts are recorded, M3 marker before ready, M4 marker removed only by the last Usage (no other Usage of the resource exists, waiting-to-be-finalized ones included), M5 a Usage by a resource is owned by that very object (UID), S1 a selector names a resource it matches (a decoy with the same labels but another controller is never selected).",
        "technique": "explicit-state search over event sequences with the real reconciler and admission handler as transition functions, plus fault/crash-point enumeration",
    },
})

CLAIMED.update({
    "C07": {
        "text": "Real claim reconciler over simkube in three modes (client-side syncer, server-side-apply syncer, upgrade from the former to the latter), three reconciles per case (first sync, re-sync after the XR side wrote its own state and the user edited the claim, settle): claims valid for the generated claim CRD (pruned and defaulted with the real apiextensions structural-schema code) with 4 user-field shapes whose nested names collide with machinery names, 18 (thorough: all 768) subsets of claim machinery fields x update policy, 9 label / annotation key classes (reserved, subdomains, near-miss domains, bare names; thorough: all 512 subsets), external names on either side, 3 XR status variants; every stored field of the XR and the claim is compared with an independent partition of the field space (claim-owned / XR-owned / shared by policy) after every reconcile; the reconciler and syncer instances first serve other claims of each update policy (state kept in an instance must not leak between claims), and the XR's status moves on before the last sync.",
        "technique": "exhaustive configuration enumeration against an independent reference partition of the field space (real reconciler and syncers)",
    },
})

CLAIMED.update({
    "C02": {
        "text": "Exhaustive table of 18 write sites (function composer: referenced object, desired-name collision, garbage collection; P&T composer: referenced object, name fixed by a patch, removed template; XR connection secret; claim connection secret with both syncers; XRD to composite CRD and claim CRD; package to revision; active revision establishing an object; RBAC provider system / edit roles and binding; XRD roles) x target pre-state {absent, uncontrolled, controlled by the owner, controlled by a foreign UID; composer sites also: adopted by a foreign UID while the controller's cache still serves the version it owned / that was uncontrolled, then the cache catches up; sites that write with optimistic concurrency also: adopted by a foreign UID just before the k-th (k<=6) API call of the reconcile that addresses the target} x 1..3 reconcile rounds on the real reconcilers over simkube: a foreign-controlled target stays byte-identical, the write log shows no effective write addressed to it, and the conflict surfaces as a returned error, a warning event or an unsynced condition (sites that never address the foreign object need not surface anything); absent / owned rows are controls proving the site does write.",
        "technique": "exhaustive configuration-table enumeration on the real reconcilers with a write-log oracle",
    },
})

CLAIMED.update({
    "C08": {
        "text": "Four closed sub-systems searched by depth-bounded DFS with state-hash pruning, every transition executed by the real code: H1 claim + XR + dependent with a provider finalizer (Background / Foreground, both syncers; variant: the XR's claimRef records an older API version of the claim); H2 XRD with the real definition and offered reconcilers on the real ControllerEngine (over harness informers and controllers whose context shows whether they were stopped; informer lookups may fail like API calls), and a bound claim + XR that are only reconciled while their dynamic controller runs (composite CRD ours or foreign; a CRD whose deletion was requested stays terminating behind the API server's customresourcecleanup finalizer until a crd-cleanup event has seen its instances go; a third party may delete the composite CRD; Crossplane may restart - new engine with no controller running; starts: steady, XRD deletion under way, CRD deleted by a third party); H3 package revision + dependency Lock (real revision reconciler and PackageDependencyManager); H4 composed Usage + using + used resource. Events: user deletions (claim, XR, XRD, revision, Usage, using resource), one full reconcile of any controller on any object with an API fault or crash at any call, single garbage-collector steps (which one is a choice), third-party finalizer removal. Trace monitors at every write: claim finalizer removed only after an XR delete was issued (Foreground: XR gone); CRD deleted only with no instances and a stopped controller; controller stopped only with no instances; XRD finalizers removed only when the CRD is gone or never ours; revision finalized only when out of the Lock; composed Usage finalized only when its using resource is gone.",
        "technique": "explicit-state search over event sequences (deletions, reconciles, GC steps) with the real reconcilers as transition functions, plus fault/crash-point enumeration",
    },
})

CLAIMED.update({
    "C04": {
        "text": "All pipelines of 1..2 (thorough 1..3) steps over 28 request-deterministic primitives (desired add/drop/reorder/mutate, context set/overwrite/clear, results and conditions of each severity/target, fatal, composite status and connection details, requirements by name present/absent, by labels with 0/1/2 matches, requirements that change once, drop, chain up to the iteration limit or never stabilise, step input, credentials present/absent - every step calls its credential 'creds' and points it at its own secret) x 4 observed states run through the real XR reconciler (FunctionComposer + FetchingFunctionRunner + ExistingExtraResourcesFetcher) with a recording function runner; the recorded request sequence is compared call by call (proto.Equal) with an independent reference interpreter of the function contract, plus surfaced events, conditions and the final applied state; and with one failing read (XR secret, composed resources through the cache or the uncached fallback, extra resources, credential secrets) every request still sent equals the reference's. PackagedFunctionRunner: all operation sequences of depth 3 (thorough 4) over {run f, run g, switch active revision, change endpoint, uninstall / reinstall, GC connections} against in-process gRPC servers on unix sockets (v1 and v1beta1-only): exactly one delivery at the active revision's endpoint, version fallback preserves request and response, GC closes exactly the connections of uninstalled functions.",
        "technique": "exhaustive enumeration of function-pipeline programs and runner operation sequences against an independent reference interpreter",
        "note": "Trusted base: simkube, gRPC and protobuf libraries (real sockets for the runner part, run outside the synctest bubble with a watchdog deadline that is a harness error, never a verdict).",
    },
    "C20": {
        "text": "The step list of `crossplane core init` reproduced with the same constructors, options and order (real TLS/CA generator, core CRDs and webhook configurations from /repo/cluster, lock, package installer, store config, runtime config, CRD migrator) over simkube: 38 (thorough 70) initial stores (empty, fully initialised, after step i for every i, CA with only key or cert, TLS secrets missing each key, other CA bundles on every carrier, user-edited defaults, an older release) x 3 runs - store equality (symbolic: key material replaced by its location), byte-identical secrets, unchanged resourceVersions of default objects, x509 verification of issued certificates for the service DNS names, bundles validate the serving certificate; 3 package kinds x 9 (14) reference forms (incl. registry hosts with a port, by tag and by digest) x 10 (17) installed sets - no two packages of a kind share a repository, existing objects keep their name; a run aborted by an API error / crash at any call followed by a clean run equals one clean run; and the package installer step alone with every API call (its three Lists included) a fault point, from stores with packages installed under user-chosen names: neither the faulted run nor faulted + clean run leaves a package object a clean run would not.",
        "technique": "exhaustive enumeration of initial stores, reference forms and abort points (fault enumeration) with a differential single-clean-run oracle",
    },
})

PENDING_REASON = "not claimed yet: the check for this property is still being built (design in DESIGN.md section 3); no technique switch is intended"


def main():
    props = [json.loads(l) for l in open(os.path.join(ROOT, "properties.jsonl"))]
    checks, na, served = [], [], []
    for p in props:
        cid = p["id"]
        if cid in CLAIMED and os.path.isdir(os.path.join(ROOT, "h", "checks", cid.lower())):
            c = CLAIMED[cid]
            served.append(cid)
            checks.append({
                "property_id": cid,
                "quick_cmd": f"./vcheck {cid} quick",
                "thorough_cmd": f"./vcheck {cid} thorough",
                "evidence_file": f"evidence/{cid}.json",
                "replay_cmd_template": "./vcheck replay {path}",
                "engine": "explore",
                "level_claimed": {"category": LEVEL[cid], "text": c["text"] + ROUND4.get(cid, "") + ROUND5.get(cid, "") + ROUND6.get(cid, "") + ROUND7.get(cid, ""), "design_ref": f"DESIGN.md section 3 {cid}"},
                "level_note": c.get("note", COMMON_NOTE),
                "technique": c["technique"],
            })
        else:
            na.append({"property_id": cid, "reason": PENDING_REASON})
    m = {
        "version": 1,
        "setup_cmd": "./vcheck setup",
        "hooks": {
            "guard": "verif-overlay (go build -overlay; no source file of /repo carries instrumentation)",
            "enable": "No file in /repo is modified. Instrumentation is injected at build time with `go test -overlay` generated by tools/mkoverlay from /repo's current working tree: range-over-map statements iterate through the vmap shim (deterministic, permutable order); `sync` and `go` statements of internal/engine and internal/xpkg/cache.go go through the vsync shim; the shims are added as virtual packages internal/verifshim/{vmap,vsync}; add-only files under /verif/export (mirroring the repo layout, never replacing a repository file) give the checks constructors for exported types whose fields are unexported (the RBAC roles controller's event handlers, built exactly as its Setup builds them). Without the overlay the repository builds and tests exactly as before.",
            "baseline_off_cmd": "for m in $(cat /w/out/gomods.txt); do MF=$(cd /repo/$m && . /w/out/goenv.sh && gomodflag); (cd /repo/$m && go test $MF -json -vet=off -count=1 -timeout 25m ./...); done",
            "source_commits": [],
            "add_only": True,
        },
        "engines": [
            {"name": "explore", "path": "h/explore", "serves_properties": served, "kind_free_text": "stateless deviation-bounded DFS over choice sequences with state-hash pruning, BFS frontier sharding and dynamic subtree claiming; every execution runs the real implementation and is replayable from its choice list"},
            {"name": "simkube", "path": "h/simkube", "serves_properties": served, "kind_free_text": "deterministic fault-injecting API server model (client.Client) using the real structured-merge-diff, json-patch and owner reference validation; write log, cache lag, garbage collector steps, admission"},
            {"name": "mkoverlay", "path": "tools/mkoverlay", "serves_properties": served, "kind_free_text": "typed AST rewriter producing a go build overlay (map iteration order, sync and go statements owned by the explorer)"},
        ],
        "checks": checks,
        "not_applicable": na,
        "notes": "All checks are bounded exhaustive explorations of the real Go code (implementation-level model checking); see DESIGN.md. known_findings.json lists genuine defects (fixed or known).",
    }
    json.dump(m, open(os.path.join(ROOT, "MANIFEST.json"), "w"), indent=1)
    print("claimed:", served, "pending:", [x["property_id"] for x in na])


if __name__ == "__main__":
    main()
