// mkoverlay generates a `go build -overlay` file that instruments the current
// working tree of the crossplane repository without modifying it:
//
//   - every `for ... := range <map-typed expr>` in the selected packages is
//     rewritten to iterate vmap.Sorted(<expr>, "<site>"): deterministic by
//     default, permutable by an explorer;
//   - optionally `import "sync"` is redirected to the vsync shim and
//     `go f()` statements to vsync.Go in files listed with -sync;
//   - shim packages are added as virtual packages of the repo module.
//
// Type information comes from go/packages, so only real map ranges are
// touched. Sites that cannot be rewritten are reported, never fatal.
package main

import (
	"bytes"
	"crypto/sha256"
	"encoding/hex"
	"encoding/json"
	"flag"
	"fmt"
	"go/ast"
	"go/token"
	"go/types"
	"os"
	"path/filepath"
	"sort"
	"strings"

	"golang.org/x/tools/go/packages"
)

type edit struct {
	pos  int
	text string
	del  int
}

func main() {
	repo := flag.String("repo", "/repo", "repository root")
	out := flag.String("out", "", "output directory for rewritten files and overlay.json")
	shim := flag.String("shim", "", "directory with shim packages (vmap, vsync)")
	export := flag.String("export", "", "directory mirroring the repo layout with add-only files (constructors for types whose fields are unexported)")
	pkgs := flag.String("pkgs", "./internal/...,./apis/...,./cmd/crossplane/...", "package patterns")
	syncFiles := flag.String("sync", "", "comma separated repo-relative files whose sync import and go statements are shimmed")
	flag.Parse()
	if *out == "" || *shim == "" {
		fmt.Fprintln(os.Stderr, "usage: mkoverlay -out dir -shim dir")
		os.Exit(2)
	}
	if a, err := filepath.Abs(*out); err == nil {
		*out = a
	}
	if a, err := filepath.Abs(*shim); err == nil {
		*shim = a
	}
	_ = os.RemoveAll(filepath.Join(*out, "files"))
	if err := os.MkdirAll(filepath.Join(*out, "files"), 0o755); err != nil {
		panic(err)
	}
	syncSet := map[string]bool{}
	for _, f := range strings.Split(*syncFiles, ",") {
		if f != "" {
			syncSet[filepath.Join(*repo, f)] = true
		}
	}
	cfg := &packages.Config{
		Mode: packages.NeedName | packages.NeedFiles | packages.NeedCompiledGoFiles | packages.NeedSyntax | packages.NeedTypes | packages.NeedTypesInfo | packages.NeedImports,
		Dir:  *repo,
		Env:  append(os.Environ(), "GOFLAGS=-mod=mod", "GOPROXY=off", "GOSUMDB=off", "GOTOOLCHAIN=local"),
	}
	loaded, err := packages.Load(cfg, strings.Split(*pkgs, ",")...)
	if err != nil {
		fmt.Fprintln(os.Stderr, "load:", err)
		os.Exit(1)
	}
	overlay := map[string]string{}
	var sites, missing []string
	modPath := "github.com/crossplane/crossplane"
	for _, p := range loaded {
		if len(p.Errors) > 0 {
			for _, e := range p.Errors {
				missing = append(missing, fmt.Sprintf("%s: %v", p.PkgPath, e))
			}
			continue
		}
		if strings.Contains(p.PkgPath, "/internal/verifshim") {
			continue
		}
		for i, f := range p.Syntax {
			if i >= len(p.CompiledGoFiles) {
				continue
			}
			path := p.CompiledGoFiles[i]
			if !strings.HasPrefix(path, *repo+"/") || strings.HasSuffix(path, "_test.go") {
				continue
			}
			src, err := os.ReadFile(path)
			if err != nil {
				continue
			}
			tf := p.Fset.File(f.Pos())
			var edits []edit
			needVmap, needVsync := false, false
			rel, _ := filepath.Rel(*repo, path)
			ast.Inspect(f, func(n ast.Node) bool {
				switch s := n.(type) {
				case *ast.RangeStmt:
					t := p.TypesInfo.TypeOf(s.X)
					if t == nil {
						return true
					}
					if _, ok := t.Underlying().(*types.Map); !ok {
						return true
					}
					line := tf.Line(s.Pos())
					site := fmt.Sprintf("%s:%d", rel, line)
					edits = append(edits, edit{pos: tf.Offset(s.X.Pos()), text: "vmap.Sorted("})
					edits = append(edits, edit{pos: tf.Offset(s.X.End()), text: fmt.Sprintf(", %q)", site)})
					sites = append(sites, site)
					needVmap = true
				case *ast.GoStmt:
					if syncSet[path] {
						// go f(args)  ->  vsync.Go(func() { f(args) })
						edits = append(edits, edit{pos: tf.Offset(s.Pos()), del: 2, text: "vsync.Go(func() {"})
						edits = append(edits, edit{pos: tf.Offset(s.End()), text: "})"})
						needVsync = true
					}
				}
				return true
			})
			if syncSet[path] {
				for _, im := range f.Imports {
					if im.Path.Value == `"sync"` && im.Name == nil {
						edits = append(edits, edit{pos: tf.Offset(im.Pos()), del: len(`"sync"`), text: `sync "` + modPath + `/internal/verifshim/vsync"`})
					}
				}
			}
			if len(edits) == 0 {
				continue
			}
			// Add imports right after the package clause.
			imp := ""
			if needVmap {
				imp += `; import vmap "` + modPath + `/internal/verifshim/vmap"`
			}
			if needVsync {
				imp += `; import vsync "` + modPath + `/internal/verifshim/vsync"`
			}
			if imp != "" {
				edits = append(edits, edit{pos: tf.Offset(f.Name.End()), text: imp})
			}
			sort.SliceStable(edits, func(i, j int) bool { return edits[i].pos < edits[j].pos })
			var b bytes.Buffer
			b.WriteString("//go:build verif || !verif\n\n")
			last := 0
			for _, e := range edits {
				b.Write(src[last:e.pos])
				b.WriteString(e.text)
				last = e.pos + e.del
			}
			b.Write(src[last:])
			// Keep line numbers stable for the original code: the build tag
			// header shifts by two lines; add a //line directive instead.
			outSrc := bytes.Replace(b.Bytes(), []byte("//go:build verif || !verif\n\n"), []byte("//line "+path+":1\n"), 1)
			h := sha256.Sum256([]byte(path))
			dst := filepath.Join(*out, "files", hex.EncodeToString(h[:8])+"_"+filepath.Base(path))
			if err := os.WriteFile(dst, outSrc, 0o644); err != nil {
				panic(err)
			}
			overlay[path] = dst
		}
	}
	// Shim packages become virtual packages of the repo module.
	_ = filepath.Walk(*shim, func(pth string, info os.FileInfo, err error) error {
		if err != nil || info.IsDir() || !strings.HasSuffix(pth, ".go") {
			return nil
		}
		rel, _ := filepath.Rel(*shim, pth)
		overlay[filepath.Join(*repo, "internal", "verifshim", rel)] = pth
		return nil
	})
	// Add-only export files: <export>/<repo-relative dir>/zz_verif_*.go are
	// added to that package (never replacing a repo file).
	if *export != "" {
		_ = filepath.Walk(*export, func(pth string, info os.FileInfo, err error) error {
			if err != nil || info.IsDir() || !strings.HasSuffix(pth, ".go") {
				return nil
			}
			rel, _ := filepath.Rel(*export, pth)
			dst := filepath.Join(*repo, rel)
			if _, err := os.Stat(dst); err == nil {
				panic("export file would replace a repository file: " + dst)
			}
			overlay[dst] = pth
			return nil
		})
	}
	_ = token.NoPos
	sort.Strings(sites)
	ov, _ := json.MarshalIndent(map[string]any{"Replace": overlay}, "", " ")
	if err := os.WriteFile(filepath.Join(*out, "overlay.json"), ov, 0o644); err != nil {
		panic(err)
	}
	rep, _ := json.MarshalIndent(map[string]any{"map_range_sites": sites, "instrumentation_missing": missing, "files": len(overlay)}, "", " ")
	_ = os.WriteFile(filepath.Join(*out, "report.json"), rep, 0o644)
	fmt.Printf("mkoverlay: %d files, %d map-range sites, %d problems\n", len(overlay), len(sites), len(missing))
}
