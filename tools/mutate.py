#!/usr/bin/env python3
"""Mechanical mutants of the code a property is anchored in, to measure what the
checks let through (an evaluation of the machinery, not a deciding step).

  mutate.py <PROP> [--n=25] [--seed=1] [--files=a.go,b.go]

For the property's anchor files (properties.jsonl), single-token mutants are
generated (continue<->break, ==<->!=, &&<->||, dropped negation, dropped
requeue, IgnoreNotFound dropped/added, off-by-one comparisons). For a random
sample of n of them, in a scratch worktree of /repo:
  1. go build of the package; 2. the package's own tests (a mutant they kill is
  discarded: the task is about changes the existing tests let through);
  3. VERIF_REPO=<worktree> ./vcheck <PROP> quick.
Results go to /verif/mutants/<PROP>.json (mutant, line, outcome: build-fail |
killed-by-repo-tests | DETECTED | SURVIVED | harness-error).
"""
import json, os, random, re, subprocess, sys, time, shutil

ROOT = os.path.dirname(os.path.dirname(os.path.abspath(__file__)))
ENV = dict(os.environ, GOFLAGS="-mod=mod", GOPROXY="off", GOSUMDB="off", GOTOOLCHAIN="local")

RULES = [
    (re.compile(r"^(\s*)continue$"), lambda m: m.group(1) + "break", "continue->break"),
    (re.compile(r"^(\s*)break$"), lambda m: m.group(1) + "continue", "break->continue"),
    (re.compile(r" == "), lambda m: " != ", "==->!="),
    (re.compile(r" != nil"), None, None),  # placeholder: err != nil handled below
    (re.compile(r" != (?!nil)"), lambda m: " == ", "!=->=="),
    (re.compile(r" && "), lambda m: " || ", "&&->||"),
    (re.compile(r" \|\| "), lambda m: " && ", "||->&&"),
    (re.compile(r"if !"), lambda m: "if ", "drop-negation"),
    (re.compile(r"Requeue: true"), lambda m: "Requeue: false", "drop-requeue"),
    (re.compile(r"resource\.IgnoreNotFound\(err\)"), lambda m: "err", "drop-IgnoreNotFound"),
    (re.compile(r"xpresource\.IgnoreNotFound\(err\)"), lambda m: "err", "drop-IgnoreNotFound"),
    (re.compile(r"kerrors\.IsNotFound\(err\)"), lambda m: "(err != nil)", "NotFound->any-error"),
    (re.compile(r"kerrors\.IsConflict\(err\)"), lambda m: "false", "conflict-not-recognised"),
    (re.compile(r" < "), lambda m: " <= ", "<-><="),
    (re.compile(r" > "), lambda m: " >= ", ">->>="),
    (re.compile(r" <= "), lambda m: " < ", "<=-><"),
    (re.compile(r" >= "), lambda m: " > ", ">=->>"),
    (re.compile(r"\.GetUID\(\)"), None, None),
]


def sh(cmd, cwd, env=ENV, timeout=3000):
    r = subprocess.run(cmd, cwd=cwd, env=env, shell=True, capture_output=True, text=True, timeout=timeout)
    return r.returncode, r.stdout + r.stderr


def mutants_of(path, text):
    out = []
    lines = text.split("\n")
    in_block_comment = False
    for i, line in enumerate(lines):
        st = line.strip()
        if st.startswith("/*"):
            in_block_comment = True
        if in_block_comment:
            if "*/" in st:
                in_block_comment = False
            continue
        if st.startswith("//") or st.startswith("log.") or ".Debug(" in st or ".Info(" in st or st.startswith("import") or st.startswith('"') or "errors.Wrap" in st and " != " not in st:
            continue
        code = line.split("//")[0] if '"' not in line else line
        for rx, repl, name in RULES:
            if repl is None:
                continue
            for m in rx.finditer(code):
                new = code[: m.start()] + repl(m) + code[m.end():]
                if new != code:
                    out.append({"file": path, "line": i + 1, "rule": name, "old": line, "new": new + line[len(code):]})
    return out


def main():
    prop = sys.argv[1]
    n, seed, only = 25, 1, None
    for a in sys.argv[2:]:
        if a.startswith("--n="):
            n = int(a[4:])
        if a.startswith("--seed="):
            seed = int(a[7:])
        if a.startswith("--files="):
            only = a[8:].split(",")
    props = {json.loads(l)["id"]: json.loads(l) for l in open(os.path.join(ROOT, "properties.jsonl"))}
    files = only or [f for f in props[prop]["anchors"]["files"] if f.endswith(".go")]
    wt = f"/tmp/mut-{prop}"
    head = subprocess.check_output(["git", "-C", "/repo", "rev-parse", "HEAD"], text=True).strip()
    if not os.path.isdir(wt):
        subprocess.check_call(["git", "-C", "/repo", "worktree", "add", "--detach", wt, head], stdout=subprocess.DEVNULL, stderr=subprocess.DEVNULL)
    sh("git checkout -- . && git checkout -q --detach " + head, wt)
    allm = []
    for f in files:
        p = os.path.join(wt, f)
        if os.path.exists(p):
            allm += mutants_of(f, open(p).read())
    random.Random(seed).shuffle(allm)
    sample = allm[:n]
    os.makedirs(os.path.join(ROOT, "mutants"), exist_ok=True)
    outp = os.path.join(ROOT, "mutants", f"{prop}.json")
    results = json.load(open(outp)) if os.path.exists(outp) else []
    done = {(r["file"], r["line"], r["rule"], r["new"]) for r in results}
    print(f"{prop}: {len(allm)} mutants in {len(files)} files, sampling {len(sample)}", flush=True)
    for mu in sample:
        if (mu["file"], mu["line"], mu["rule"], mu["new"]) in done:
            continue
        p = os.path.join(wt, mu["file"])
        src = open(p).read().split("\n")
        src[mu["line"] - 1] = mu["new"]
        open(p, "w").write("\n".join(src))
        pkg = "./" + os.path.dirname(mu["file"]) + "/"
        t0 = time.time()
        rc, out = sh(f"go build {pkg} && go vet {pkg}", wt)
        if rc != 0:
            mu["outcome"] = "build-fail"
        else:
            rc, out = sh(f"go test -count=1 {pkg}", wt)
            if rc != 0:
                mu["outcome"] = "killed-by-repo-tests"
            else:
                env = dict(os.environ, VERIF_REPO=wt, VERIF_WORK=wt + "-work")
                r = subprocess.run([os.path.join(ROOT, "vcheck"), prop, "quick"], cwd=ROOT, env=env, capture_output=True, text=True)
                sigs = sorted({l.strip().split("signature: ")[1] for l in (r.stdout + r.stderr).splitlines() if "signature: " in l})
                mu["outcome"] = {0: "SURVIVED", 1: "DETECTED"}.get(r.returncode, "harness-error")
                mu["signatures"] = sigs[:4]
        mu["seconds"] = round(time.time() - t0)
        sh("git checkout -- .", wt)
        results.append(mu)
        json.dump(results, open(outp, "w"), indent=1)
        print(f"{mu['outcome']:22} {mu['file']}:{mu['line']} {mu['rule']}  {mu['old'].strip()[:90]}", flush=True)
    subprocess.call(["git", "-C", "/repo", "worktree", "remove", "--force", wt])
    shutil.rmtree(wt, ignore_errors=True)
    shutil.rmtree(wt + "-work", ignore_errors=True)
    by = {}
    for r in results:
        by[r["outcome"]] = by.get(r["outcome"], 0) + 1
    print(prop, by)


if __name__ == "__main__":
    main()
