"""Generate the prompts (and scratch worktrees /tmp/s<round>-<PROP>) for one round of
seeding agents: mkprompts.py <round> <first seed number>. The agents see only the
property text, the list of sites already used, and their own worktree."""
import json, os, subprocess, re, sys
ROUND, FIRST = int(sys.argv[1]), int(sys.argv[2])
ONE_ONLY = len(sys.argv) > 3 and sys.argv[3] == "one"
tmpl = open(os.path.join(os.path.dirname(os.path.abspath(__file__)),'seed-prompt.txt')).read()
props = {json.loads(l)['id']: json.loads(l) for l in open('/verif/properties.jsonl')}
head = subprocess.check_output(['git','-C','/repo','rev-parse','HEAD'], text=True).strip()
def taken(pid):
    out=[]
    for n in range(1, FIRST):
        f=f'/verif/seeded/{pid}-{n}/patch.diff'
        if not os.path.exists(f): continue
        d=open(f).read()
        files=re.findall(r'^\+\+\+ b/(.*)$', d, re.M)
        funcs=sorted(set(re.findall(r'^@@[^@]*@@ (.*)$', d, re.M)))
        notes=''
        np_=f'/verif/seeded/{pid}-{n}/notes.md'
        if os.path.exists(np_):
            for line in open(np_):
                if line.startswith('#'):
                    notes=line.strip('# \n'); break
        out.append(f"{', '.join(files)} [{'; '.join(x[:90] for x in funcs[:2])}] - {notes[:160]}")
    return out
ONLY_PROPS = set(sys.argv[4].split(",")) if len(sys.argv) > 4 else None
for pid, p in props.items():
    if ONLY_PROPS and pid not in ONLY_PROPS:
        continue
    wt = f"/tmp/s{ROUND}-{pid}"
    if not os.path.isdir(wt):
        subprocess.check_call(['git','-C','/repo','worktree','add','--detach',wt,head], stdout=subprocess.DEVNULL, stderr=subprocess.DEVNULL)
    text = f"PROPERTY {pid}: {p['title']}\n\n{p['statement']}\n\nQuantification: {p['quantifier']['text']}\n"
    s = tmpl.replace('WORKTREE', wt).replace('PROPERTY_TEXT', text)
    s = s.replace("(n = 1, 2)", f"(n = {FIRST}, {FIRST+1})")
    s = s.replace("export GOFLAGS=-mod=mod GOPROXY=off GOSUMDB=off", "export GOFLAGS=-mod=mod GOPROXY=off GOSUMDB=off GOTOOLCHAIN=local")
    extra = "\nAdditional rules for this round:\n" \
        f"- {FIRST-1} changes for this property already exist; yours must use DIFFERENT sites and mechanisms. Already taken (do not redo these or close variants of them):\n" \
        + "".join(f"    * {e}\n" for e in taken(pid)) + \
        "  Look further afield: other branches of the same reconcilers, helper packages and API types they call (apis/..., internal/xcrd, internal/names, internal/xfn, internal/xpkg, internal/dag, internal/usage, internal/engine ...), the other composer / syncer / package type, Setup functions and option wiring, defaulting and conversion code, index functions, event handlers that decide what gets reconciled, ordering of writes, handling of conflicts / NotFound / AlreadyExists, anything cached between calls. A change may also make two reconcilers or two objects of the same kind interfere with each other.\n" \
        f"- Number your two changes {FIRST} and {FIRST+1} (directories seeded/{FIRST} and seeded/{FIRST+1}); name demonstration test functions TestSeed{pid}_{FIRST}... and TestSeed{pid}_{FIRST+1}..., and the files zz_seed_{pid.lower()}_{FIRST}_demo_test.go / zz_seed_{pid.lower()}_{FIRST+1}_demo_test.go.\n" \
        "- In each seeded/<n>/ also write run.json: {\"demo_file\": \"<file name in seeded/<n>/>\", \"place_at\": \"<path in the tree where the demo file must be copied>\", \"package\": \"./<go package path>/\", \"run\": \"<-run regex>\"}.\n" \
        "- Never use `git stash` (its storage is shared with other worktrees of this repository). Switch between changed and unchanged trees with `git apply seeded/<n>/patch.diff` and `git apply -R seeded/<n>/patch.diff`.\n" \
        "- A demonstration's fake API server must behave like the real one where it matters: an Update or Patch that changes nothing does not change the resourceVersion; Lists honour label and field selectors; a merge patch replaces lists wholesale.\n"
    if ONE_ONLY:
        extra += f"- This round deliver ONE change only (number {FIRST}; ignore every mention of a second one above). Its trigger must be dynamic: an interleaving with another actor, an API fault or crash at a specific call, a stale or missing cache read, or a multi-step sequence of edits - not merely an unusual input. It must break the property within the property's own quantification (read the 'Quantification' line): do not rely on circumstances it does not list.\n" \
            "- More facts about the real API server your fake must respect: a patch (merge, JSON or apply) of the *status subresource* of a custom resource ignores metadata (including metadata.uid) in the patch body; an Update carries a UID precondition only through the object's own metadata.uid; a List served by a cache can lag, but do not build a demonstration on a lagging List unless the property's quantification mentions caches or stale reads.\n"
    s = s.replace("\nFinal answer to me:", extra + "\nFinal answer to me:")
    open(f"/tmp/s{ROUND}-{pid}.prompt.txt", "w").write(s)
print("ok", head[:7])
