#!/usr/bin/env python3
"""Confirms a seeded change produced by an independent sub-agent and runs the
matching check against it.

  seedcheck.py <PROP> <n> <demo-file-in-seeded-dir> <placement-path-in-repo> <go test package> <run regex> [--skip-suite]

Steps (all in the sub-agent's scratch worktree /tmp/seed-<PROP>, never /repo):
  1. apply seeded/<n>/patch.diff; go build ./...; run the repository's tests
  2. demonstration fails with the change, passes without it
  3. VERIF_REPO=<worktree> ./vcheck <PROP> quick  -> expect exit 1 + VIOLATION
  4. store patch, demonstration and meta.json under /verif/seeded/<PROP>-<n>/
"""
import json
import os
import shutil
import subprocess
import sys
import time

ROOT = os.path.dirname(os.path.dirname(os.path.abspath(__file__)))
ENV = dict(os.environ, GOFLAGS="-mod=mod", GOPROXY="off", GOSUMDB="off", GOTOOLCHAIN="local")


def run(cmd, cwd, env=ENV, timeout=3600):
    r = subprocess.run(cmd, cwd=cwd, env=env, capture_output=True, text=True, timeout=timeout, shell=isinstance(cmd, str))
    return r.returncode, r.stdout + r.stderr


def main():
    # Short form: seedcheck.py <PROP> <n> --wt=<worktree> reads seeded/<n>/run.json.
    wt_arg = [a.split("=", 1)[1] for a in sys.argv if a.startswith("--wt=")]
    pos = [a for a in sys.argv[1:] if not a.startswith("--")]
    if len(pos) == 2:
        prop, n = pos
        rj = json.load(open(os.path.join(wt_arg[0] if wt_arg else f"/tmp/seed-{prop}", "seeded", n, "run.json")))
        demo, place, pkg, regex = rj["demo_file"], rj["place_at"], rj["package"], rj["run"]
    else:
        prop, n, demo, place, pkg, regex = pos[:6]
    skip_suite = "--skip-suite" in sys.argv
    tier = "quick"
    for a in sys.argv:
        if a.startswith("--tier="):
            tier = a.split("=")[1]
    wt = wt_arg[0] if wt_arg else f"/tmp/seed-{prop}"
    sd = os.path.join(wt, "seeded", n)
    patch = os.path.join(sd, "patch.diff")
    meta = {"property": prop, "seed": n, "worktree_base": subprocess.check_output(["git", "-C", wt, "rev-parse", "--short", "HEAD"], text=True).strip(), "ran": []}
    run(["git", "checkout", "--", "."], wt)
    # Seeds are confirmed against the current /repo HEAD (it may have gained
    # fix: commits since the sub-agent's worktree was made).
    head = subprocess.check_output(["git", "-C", "/repo", "rev-parse", "HEAD"], text=True).strip()
    run(["git", "checkout", "--detach", head], wt)
    meta["worktree_base"] = head[:7]
    rc, out = run(["git", "apply", patch], wt)
    assert rc == 0, "patch does not apply: " + out
    rc, out = run("go build ./...", wt)
    meta["ran"].append({"cmd": "go build ./...", "exit": rc})
    assert rc == 0, "does not compile:\n" + out[-3000:]
    if not skip_suite:
        t0 = time.time()
        rc, out = run("go test -vet=off -count=1 ./internal/... ./apis/... ./cmd/... ./pkg/...", wt, timeout=3000)
        fails = [l for l in out.splitlines() if l.startswith("FAIL") or l.startswith("--- FAIL")]
        meta["ran"].append({"cmd": "go test ./internal/... ./apis/... ./cmd/... ./pkg/... (existing tests, with the change)", "exit": rc, "failures": fails, "seconds": round(time.time() - t0)})
        assert rc == 0, "existing tests fail with the change:\n" + "\n".join(fails)
    dst = os.path.join(wt, place)
    shutil.copy(os.path.join(sd, demo), dst)
    rc_with, out_with = run(f"go test -vet=off -count=1 {pkg} -run '{regex}'", wt)
    meta["ran"].append({"cmd": f"go test {pkg} -run {regex} (demonstration, with the change)", "exit": rc_with})
    run(["git", "apply", "-R", patch], wt)
    rc_without, out_without = run(f"go test -vet=off -count=1 {pkg} -run '{regex}'", wt)
    meta["ran"].append({"cmd": f"go test {pkg} -run {regex} (demonstration, without the change)", "exit": rc_without})
    os.remove(dst)
    assert rc_with != 0, "demonstration passes WITH the change:\n" + out_with[-2000:]
    assert rc_without == 0, "demonstration fails WITHOUT the change:\n" + out_without[-2000:]
    # Our check against the changed tree.
    run(["git", "apply", patch], wt)
    work = wt + "-work"
    env = dict(os.environ, VERIF_REPO=wt, VERIF_WORK=work)
    t0 = time.time()
    rc, out = run([os.path.join(ROOT, "vcheck"), prop, tier], ROOT, env=env, timeout=3000)
    sigs = [l.strip().split("signature: ")[1] for l in out.splitlines() if "signature: " in l]
    meta["check"] = {"cmd": f"VERIF_REPO={wt} ./vcheck {prop} {tier}", "exit": rc, "signatures": sigs, "seconds": round(time.time() - t0), "tail": out.splitlines()[-1:] }
    run(["git", "checkout", "--", "."], wt)
    shutil.rmtree(work, ignore_errors=True)
    out_dir = os.path.join(ROOT, "seeded", f"{prop}-{n}")
    os.makedirs(out_dir, exist_ok=True)
    shutil.copy(patch, os.path.join(out_dir, "patch.diff"))
    shutil.copy(os.path.join(sd, demo), os.path.join(out_dir, os.path.basename(demo)))
    if os.path.exists(os.path.join(sd, "patch.orig.diff")):
        shutil.copy(os.path.join(sd, "patch.orig.diff"), os.path.join(out_dir, "patch.orig.diff"))
        meta["rebased"] = "patch.diff is the sub-agent's change (patch.orig.diff) re-expressed on the current /repo HEAD, because a later fix: commit touched the same lines"
    if os.path.exists(os.path.join(sd, "notes.md")):
        shutil.copy(os.path.join(sd, "notes.md"), os.path.join(out_dir, "notes.md"))
    meta["demonstration"] = {"file": os.path.basename(demo), "place_at": place, "package": pkg, "run": regex}
    meta["detected"] = rc == 1 and len(sigs) > 0
    json.dump(meta, open(os.path.join(out_dir, "meta.json"), "w"), indent=1)
    print(json.dumps(meta["check"], indent=1))
    print("DETECTED" if meta["detected"] else "MISSED")


if __name__ == "__main__":
    main()
