#!/usr/bin/env python3
"""Regression run: every seeded change against the current checks.

One scratch worktree of /repo (HEAD), one change at a time:
  git apply seeded/<id>/patch.diff ; VERIF_REPO=<wt> ./vcheck <PROP> quick ; git checkout -- .
Writes seeded/MATRIX.json (seed -> exit code, signatures, seconds) and prints a
summary. Exit 1 if a seed is no longer detected.

  seedmatrix.py [<seed-id> ...]
"""
import re, json, os, subprocess, sys, time, shutil

ROOT = os.path.dirname(os.path.dirname(os.path.abspath(__file__)))
WT = os.environ.get("SEEDMATRIX_WT", "/tmp/seedmatrix")  # (set both to run several lanes in parallel)
WORK = WT + "-work"
OUT = os.environ.get("SEEDMATRIX_OUT")  # a lane writes its own file; merge into MATRIX.json afterwards


def main():
    ids = sys.argv[1:] or sorted(d for d in os.listdir(os.path.join(ROOT, "seeded")) if os.path.isdir(os.path.join(ROOT, "seeded", d)) and re.match(r"C\d\d-\d+$", d))
    head = subprocess.check_output(["git", "-C", "/repo", "rev-parse", "HEAD"], text=True).strip()
    if not os.path.isdir(WT):
        subprocess.check_call(["git", "-C", "/repo", "worktree", "add", "--detach", WT, head], stdout=subprocess.DEVNULL, stderr=subprocess.DEVNULL)
    subprocess.check_call("git checkout -- . && git checkout -q --detach " + head, cwd=WT, shell=True)
    out_path = OUT or os.path.join(ROOT, "seeded", "MATRIX.json")
    matrix = json.load(open(out_path)) if os.path.exists(out_path) and sys.argv[1:] else {}
    missed = []
    for sid in ids:
        prop = sid.split("-")[0]
        patch = os.path.join(ROOT, "seeded", sid, "patch.diff")
        r = subprocess.run(["git", "apply", patch], cwd=WT, capture_output=True, text=True)
        if r.returncode != 0:
            matrix[sid] = {"error": "patch does not apply on " + head[:7]}
            missed.append(sid)
            continue
        t0 = time.time()
        env = dict(os.environ, VERIF_REPO=WT, VERIF_WORK=WORK)
        r = subprocess.run([os.path.join(ROOT, "vcheck"), prop, "quick"], cwd=ROOT, env=env, capture_output=True, text=True)
        sigs = sorted({l.strip().split("signature: ")[1] for l in (r.stdout + r.stderr).splitlines() if "signature: " in l})
        subprocess.check_call("git checkout -- .", cwd=WT, shell=True)
        matrix[sid] = {"repo_head": head[:7], "cmd": f"VERIF_REPO={WT} ./vcheck {prop} quick", "exit": r.returncode, "signatures": sigs, "seconds": round(time.time() - t0)}
        ok = r.returncode == 1 and sigs
        if not ok:
            missed.append(sid)
        print(sid, "DETECTED" if ok else "MISSED", r.returncode, sigs[:2], matrix[sid]["seconds"], "s", flush=True)
        json.dump(matrix, open(out_path, "w"), indent=1, sort_keys=True)
    subprocess.call(["git", "-C", "/repo", "worktree", "remove", "--force", WT])
    shutil.rmtree(WT, ignore_errors=True)
    shutil.rmtree(WORK, ignore_errors=True)
    print(f"{len(ids) - len(missed)}/{len(ids)} detected; missed: {missed}")
    sys.exit(1 if missed else 0)


if __name__ == "__main__":
    main()
